------------------------------ MODULE C20_PQ ------------------------------
(* Priority queue.  Abstract state: a bag of pending <<item, priority>> pairs (items are *)
(* unique ids, so the bag is a set).  Refinement: the binary heap array exactly as       *)
(* Python's heapq maintains it (C20_PQ_MC checks heap order and that popping the array   *)
(* implements "remove a pending item of minimum priority").                              *)
EXTENDS Naturals, Integers, Sequences, FiniteSets

PQEmpty == [bag |-> {}, heap |-> <<>>]
PQMin(s) == CHOOSE p \in { it[2] : it \in s.bag } : \A it \in s.bag : p <= it[2]

(* heapq._siftdown(heap, startpos, pos): move the item at pos up towards startpos *)
RECURSIVE SiftDown(_, _, _, _)
SiftDown(h, start, pos, item) ==          \* positions are 0-based as in heapq; h is 1-based
  IF pos > start
  THEN LET pp == (pos - 1) \div 2 IN
       IF item[2] < h[pp + 1][2] THEN SiftDown([h EXCEPT ![pos + 1] = h[pp + 1]], start, pp, item)
       ELSE [h EXCEPT ![pos + 1] = item]
  ELSE [h EXCEPT ![pos + 1] = item]

(* heapq._siftup(heap, pos): bubble the smaller child up until a leaf, then siftdown *)
RECURSIVE SiftUpLoop(_, _, _)
SiftUpLoop(h, pos, endpos) ==             \* returns <<heap, final pos>>
  LET child == 2 * pos + 1 IN
  IF child < endpos
  THEN LET right == child + 1
           c == IF right < endpos /\ ~(h[child + 1][2] < h[right + 1][2]) THEN right ELSE child
       IN SiftUpLoop([h EXCEPT ![pos + 1] = h[c + 1]], c, endpos)
  ELSE <<h, pos>>
SiftUp(h, pos) == LET item == h[pos + 1]
                      r == SiftUpLoop(h, pos, Len(h))
                  IN SiftDown(r[1], pos, r[2], item)

HeapPush(h, item) == SiftDown(Append(h, item), 0, Len(h), item)
HeapPop(h) ==        \* <<returned item, heap after>>
  LET last == h[Len(h)]
      rest == SubSeq(h, 1, Len(h) - 1)
  IN IF rest = <<>> THEN <<last, rest>>
     ELSE <<h[1], SiftUp([rest EXCEPT ![1] = last], 0)>>

PQPush(s, x, p)  == [bag |-> s.bag \cup {<<x, p>>}, heap |-> HeapPush(s.heap, <<x, p>>)]
PQRemove(s, x)   == [bag |-> { it \in s.bag : it[1] # x },
                     heap |-> IF s.heap # <<>> /\ HeapPop(s.heap)[1][1] = x THEN HeapPop(s.heap)[2] ELSE s.heap]
HeapOrdered(h)   == \A i \in 2..Len(h) : ~(h[i][2] < h[((i - 2) \div 2) + 1][2])
=============================================================================
