------------------------------ MODULE C08_Trace ------------------------------
(* given = [P, F, E, C (as built), family].  event = [name, opt, M (dense copy of the returned sparse matrix as rows of   *)
(* exact rationals, <<0,0>> = not representable), nnz (stored entries), extra ...].                                          *)
EXTENDS TraceKit, C08_Operators
VARIABLES ci, ei, st, nj, ns, ne
InitState(c) == [g |-> [P |-> c.given.P, F |-> c.given.F, E |-> c.given.E, C |-> c.given.C],
                 D |-> Derive(c.given.F, Len(c.given.P), c.given.E), fam |-> c.given.family,
                 hist |-> c.given.hist, tiny |-> c.given.scale10 > 0]          \* "" / "warm" (cacheable attributes computed before) / "moved" (... and the mesh moved afterwards)
Diag(v) == [i \in 1..Len(v) |-> [j \in 1..Len(v) |-> IF i = j THEN v[i] ELSE Zero]]
AllRat(M) == \A i \in 1..Len(M) : \A j \in 1..Len(M[i]) : M[i][j][2] > 0
Sq(M) == [i \in 1..Len(M) |-> [j \in 1..Len(M[i]) |-> RMul(M[i][j], M[i][j])]]
Inv(v) == [i \in 1..Len(v) |-> RInv(v[i])]
(* every operator is homogeneous in the size of the mesh: a mesh shrunk by 10^k (given.scale10) is recorded with its entries multiplied by *)
(* 10^(k * degree), and must then have the entries of the lattice mesh; this is the degree of what the driver records                       *)
HomDeg(nm, opt) == IF nm = "adjacency_length" THEN 2
                   ELSE IF nm \in {"mass_vertices", "mass_edges", "mass_faces"} THEN (IF opt \in {"inverse", "inverse_sqrt"} THEN -2 ELSE 2)
                   ELSE IF nm \in {"mass_volume_vertices", "mass_volume_cells"} THEN (IF opt = "inverse" THEN -3 ELSE 3)
                   ELSE IF nm = "gradient_flat" THEN -1 ELSE 0
Judge0(c, s, e) ==
  LET g == s.g
      D == s.D
      nm == e.name
      cls == nm \o (IF e.opt # "" THEN "/" \o e.opt ELSE "") \o (IF s.hist = "moved" THEN "/after_transform" ELSE IF s.hist = "warm" THEN "/attributes_cached" ELSE "") \o (IF s.tiny THEN "/tiny" ELSE "")
      eq(want, clause) == Check(<< << e.exc = "", "operator_is_computed" >>, << e.M = want, clause >> >>, cls, "", s)
      tri == \A f \in 1..Len(g.F) : Len(g.F[f]) = 3
  IN
  CASE nm = "laplacian" /\ e.opt = "cotan" -> IF ~tri \/ ~CotAvail(g, D) THEN Skip(s) ELSE eq(Stiffness(g, D), "cotangent_laplacian_is_the_stiffness_matrix")
    [] nm = "laplacian" /\ e.opt = "uniform" -> IF ~tri THEN Skip(s) ELSE eq(UniformStiffness(g, D), "uniform_laplacian_entries")
    [] nm = "graph_laplacian" -> eq(GraphLaplacian(g), "graph_laplacian_is_degree_minus_adjacency")
    [] nm = "adjacency" ->
         LET W == IF e.opt = "one" THEN [k \in 1..Len(g.E) |-> R(1)] ELSE e.W IN
         Check(<< << e.exc = "", "operator_is_computed" >>, << e.nnz = 2 * Len(g.E), "exactly_one_entry_per_incidence" >>,
                  << e.M = Adjacency(g, W), "adjacency_weights" >> >>, cls, "", s)
    [] nm = "adjacency_length" ->        \* entries squared = squared edge lengths
         LET W2 == [k \in 1..Len(g.E) |-> LET d == ISub(Pt(g, g.E[k][1]), Pt(g, g.E[k][2])) IN R(IDt(d, d))] IN
         Check(<< << e.exc = "", "operator_is_computed" >>, << e.nnz = 2 * Len(g.E), "exactly_one_entry_per_incidence" >>,
                  << e.M = Adjacency(g, W2), "adjacency_weights" >> >>, cls, "", s)
    [] nm = "vertex_to_edge" -> Check(<< << e.exc = "", "operator_is_computed" >>, << e.nnz = 2 * Len(g.E), "exactly_one_entry_per_incidence" >>,
                                         << e.M = V2E(g, e.opt = "oriented"), "incidence_sign_and_weight" >> >>, cls, "", s)
    [] nm = "vertex_to_face" -> Check(<< << e.exc = "", "operator_is_computed" >>,
                                         << e.nnz = RSum([f \in 1..Len(g.F) |-> R(Len(g.F[f]))])[1], "exactly_one_entry_per_incidence" >>,
                                         << e.M = V2F(g), "incidence_sign_and_weight" >> >>, cls, "", s)
    [] nm \in {"mass_vertices", "mass_edges", "mass_faces"} ->
         IF ~AreaAvail(g) THEN Skip(s)
         ELSE LET v == IF nm = "mass_vertices" THEN VertexMass(g) ELSE IF nm = "mass_edges" THEN EdgeMass(g) ELSE FaceMass(g)
                  w == IF e.opt \in {"inverse", "inverse_sqrt"} THEN Inv(v) ELSE v
                  got == e.M                                  \* for the sqrt options the harness records the entries squared
              IN Check(<< << e.exc = "", "operator_is_computed" >>, << got = Diag(w), "mass_matrix_is_the_positive_diagonal_of_areas" >>,
                          << e.opt # "" \/ ~tri \/ RSum(v) = RMul(R(IF nm = "mass_vertices" THEN 3 ELSE 1), TotalArea(g)), "masses_sum_to_the_stated_multiple_of_the_area" >> >>, cls, "", s)
    [] nm \in {"mass_volume_vertices", "mass_volume_cells"} ->
         LET v == IF nm = "mass_volume_vertices" THEN VertexMassVol(g) ELSE [cc \in 1..Len(g.C) |-> CellVol(g, cc)]
             w == IF e.opt = "inverse" THEN Inv(v) ELSE v
         IN Check(<< << e.exc = "", "operator_is_computed" >>, << e.M = Diag(w), "mass_matrix_is_the_positive_diagonal_of_volumes" >>,
                     << RSum(v) = RMul(R(IF nm = "mass_volume_vertices" THEN 4 ELSE 1), TotalVol(g)), "masses_sum_to_the_stated_multiple_of_the_volume" >> >>, cls, "", s)
    [] nm = "gradient_flat" ->        \* e.M: rows of <<re, im>> pairs; e.ysign: orientation of the canonical basis the library chose
         IF ~tri \/ ~Planar(g) THEN Skip(s)
         ELSE eq([f \in 1..Len(g.F) |-> [v \in 1..Len(g.P) |-> GradEntry(g, f, v - 1, e.ysign)]], "gradient_entries")
    [] nm = "gradient_identity" ->    \* e.M = Re(G* A G) computed from the library's G and areas; e.g2 = |G f|^2 per face for f = a.x
         IF ~tri \/ ~CotAvail(g, D) THEN Skip(s)
         ELSE Check(<< << e.exc = "", "operator_is_computed" >>, << e.M = Stiffness(g, D), "gradient_star_area_gradient_is_the_laplacian" >>,
                       << \A f \in 1..Len(g.F) : LET n == FaceN(g, f) IN
                             e.g2[f] = RSub(R(IDt(e.a, e.a)), Norm(<<IDt(e.a, n) * IDt(e.a, n), IDt(n, n)>>)), "gradient_of_affine_function_is_its_tangential_gradient" >>,
                       << \A f \in 1..Len(g.F) : LET n == FaceN(g, f) IN       \* ... as a vector of space: a - (a.n) n / (n.n)
                             e.g3[f] = [k \in 1..3 |-> RSub(R(e.a[k]), Norm(<<IDt(e.a, n) * n[k], IDt(n, n)>>))], "gradient_vector_in_the_face_basis_is_the_tangential_gradient" >> >>, cls, "", s)
    [] nm = "laplacian_triangles" ->
         IF ~tri \/ (e.opt = "cotan" /\ ~DualAvail(g, D)) THEN Skip(s)
         ELSE Check(<< << e.exc = "", "operator_is_computed" >>, << AllRat(e.M) /\ IsSym(e.M) /\ RowSumsZero(e.M), "dual_laplacian_symmetric_zero_row_sums" >>,
                       << e.M = DualLaplacian(g, D, e.opt = "cotan"), "dual_laplacian_entries" >> >>, cls, "", s)
    [] nm = "laplacian_edges" /\ ~tri -> Skip(s)
    [] nm \in {"volume_laplacian", "laplacian_tetrahedra", "laplacian_edges"} ->     \* structural: e.rows = row sums, e.asym = entries of M - M^T, all exactly representable as 0
         Check(<< << e.exc = "", "operator_is_computed" >>,
                  << \A i \in 1..Len(e.rows) : e.rows[i] = Zero, "zero_row_sums" >>, << \A i \in 1..Len(e.asym) : e.asym[i] = Zero, "symmetric" >> >>, cls, "", s)
    [] OTHER -> Bad("unknown_operator", nm, "", s)
Judge(c, s, e) == IF e.deg # HomDeg(e.name, e.opt) THEN Bad("recorded_with_the_operators_homogeneity_degree", e.name, "", s) ELSE Judge0(c, s, e)
W0 == INSTANCE Walker
Spec == W0!Spec
=============================================================================
