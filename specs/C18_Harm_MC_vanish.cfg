SPECIFICATION Spec
CONSTANTS
  MeshId = "grid3"
  Orders = {2, 6}
  Cotan = FALSE
  RotFaces = {1}
INVARIANT NeverVanishes
CHECK_DEADLOCK FALSE
