CONSTANTS
  NI = 4
  D = 7
  EmitOn = TRUE
SPECIFICATION Spec
INVARIANT Invariant
PROPERTY PopRefines
CONSTRAINT Emit
VIEW View
CHECK_DEADLOCK FALSE
