CONSTANTS
  N = 4
  MaxW = 2
SPECIFICATION Spec
INVARIANT Correct
INVARIANT SettledAreFinal
VIEW View
CHECK_DEADLOCK FALSE
