--------------------------- MODULE C18_FrameField ---------------------------
(* Face-based n-RoSy frame fields on triangle meshes whose corner angles are all multiples of pi/4 *)
(* ("pi/4 lattices": grids with diagonals, pinwheels, box surfaces).  On such meshes every angle the   *)
(* library manipulates is an integer number of units, so the whole pipeline has an exact model:          *)
(*   - local bases (X along the first side, or along the first feature side) and the angle of every       *)
(*     edge in them, in units of pi/4 (mod 8);                                                             *)
(*   - the parallel transport between adjacent faces and the connection Laplacian  N* D N  in polar form   *)
(*     [w, k] = w * exp(i k pi/4);                                                                         *)
(*   - the constrained faces and their constraint;                                                         *)
(*   - the harmonic extension of the constraints, solved exactly over the Gaussian rationals;              *)
(*   - branch matching across every edge and the holonomy of every vertex in units of pi/(4n), from which  *)
(*     the index quantum and the Poincare-Hopf sum are theorems (C18_MC) and the flagged values follow.    *)
EXTENDS C08_Operators, TLC

Mod(x, m) == (((x % m) + m) % m)

(* ------------------------------------------------ Gaussian rationals <<re, im>> ---- *)
CZero == << R(0), R(0) >>
COne == << R(1), R(0) >>
CAdd(a, b) == << RAdd(a[1], b[1]), RAdd(a[2], b[2]) >>
CNeg(a) == << RNeg(a[1]), RNeg(a[2]) >>
CSub(a, b) == CAdd(a, CNeg(b))
CMul(a, b) == << RSub(RMul(a[1], b[1]), RMul(a[2], b[2])), RAdd(RMul(a[1], b[2]), RMul(a[2], b[1])) >>
CConj(a) == << a[1], RNeg(a[2]) >>
CAbs2(a) == RAdd(RMul(a[1], a[1]), RMul(a[2], a[2]))
CScale(r, a) == << RMul(r, a[1]), RMul(r, a[2]) >>
CInv(a) == CScale(RInv(CAbs2(a)), CConj(a))
CIsZero(a) == RIsZero(a[1]) /\ RIsZero(a[2])
RECURSIVE CSum(_)
CSum(q) == IF q = <<>> THEN CZero ELSE CAdd(q[1], CSum(Tail(q)))
Unit8(k) == CASE k % 8 = 0 -> << R(1), R(0) >> [] k % 8 = 2 -> << R(0), R(1) >> [] k % 8 = 4 -> << R(-1), R(0) >> [] k % 8 = 6 -> << R(0), R(-1) >>
PolarToC(p) == IF RIsZero(p.w) THEN CZero ELSE CScale(p.w, Unit8(p.k))          \* needs an even phase index
Dir2(x) == CScale(RInv(CAbs2(x)), CMul(x, x))                                    \* (x / |x|)^2, a Gaussian rational
Signs(x) == << RSign(x[1]), RSign(x[2]) >>

(* exact solution of a square system over the Gaussian rationals: M is a sequence of n rows of n + 1 entries *)
RECURSIVE GSolve(_)
GSolve(M) ==
  LET n == Len(M) IN
  IF n = 0 THEN [ok |-> TRUE, x |-> <<>>]
  ELSE LET piv == { r \in 1..n : ~CIsZero(M[r][1]) } IN
       IF piv = {} THEN [ok |-> FALSE, x |-> <<>>]
       ELSE LET p == CHOOSE r \in piv : \A q \in piv : r <= q
                inv == CInv(M[p][1])
                nrow == [j \in 1..(n + 1) |-> CMul(inv, M[p][j])]
                rest == [r \in 1..(n - 1) |-> LET row == IF r < p THEN M[r] ELSE M[r + 1]
                                              IN [j \in 1..n |-> CSub(row[j + 1], CMul(row[1], nrow[j + 1]))]]
                sub == GSolve(TLCEval(rest))
            IN IF ~sub.ok THEN sub
               ELSE [ok |-> TRUE, x |-> << CSub(nrow[n + 1], CSum([j \in 1..(n - 1) |-> CMul(nrow[j + 1], sub.x[j])])) >> \o sub.x]

(* ------------------------------------------------ pi/4-lattice geometry ---- *)
IsTri(g) == \A f \in 1..Len(g.F) : Len(g.F[f]) = 3
CornerKF(g, f, i) == LET t == g.F[f] IN
  AngK(ISub(Pt(g, t[(i % 3) + 1]), Pt(g, t[i])), ISub(Pt(g, t[((i + 1) % 3) + 1]), Pt(g, t[i])))     \* corner i of face f in units of pi/4, 0 = no such multiple
Lattice(g) == IsTri(g) /\ \A f \in 1..Len(g.F) : \A i \in 1..3 : CornerKF(g, f, i) # 0
SideV(g, f, i) == << g.F[f][i], g.F[f][(i % 3) + 1] >>
SideKey(g, f, i) == Key(g.F[f][i], g.F[f][(i % 3) + 1])
BorderKeys(g, D) == { Key(g.E[k][1], g.E[k][2]) : k \in { j \in 1..Len(g.E) : IsBorderEdge(D, g.E[j][1], g.E[j][2]) } }
NFeat(g, FE, f) == Cardinality({ i \in 1..3 : SideKey(g, f, i) \in FE })
Fixed(g, FE) == { f \in 1..Len(g.F) : NFeat(g, FE, f) >= 1 }              \* faces the solver keeps fixed
OneFeat(g, FE) == { f \in 1..Len(g.F) : NFeat(g, FE, f) = 1 }             \* faces with exactly one feature side: aligned with it
(* the basis of a face: X along its first feature side if it has one, else along its first side; Y such that the face is counterclockwise *)
BaseIdx(g, FE, f) == IF NFeat(g, FE, f) = 0 THEN 1 ELSE CHOOSE i \in 1..3 : SideKey(g, f, i) \in FE /\ \A j \in 1..(i - 1) : SideKey(g, f, j) \notin FE
SideDir(g, FE, f, i) ==                 \* direction of side i of face f in the basis of f, units of pi/4
  LET b == BaseIdx(g, FE, f)
      s1 == (b % 3) + 1
      s2 == (s1 % 3) + 1
      d1 == 4 - CornerKF(g, f, s1)
      d2 == d1 + 4 - CornerKF(g, f, s2)
  IN IF i = b THEN 0 ELSE IF i = s1 THEN Mod(d1, 8) ELSE Mod(d2, 8)
EdgeAng(g, FE, f, a, b) ==              \* direction of the vector a -> b (an edge of f) in the basis of f
  LET i == CHOOSE j \in 1..3 : SideKey(g, f, j) = Key(a, b)
  IN IF SideV(g, f, i) = << a, b >> THEN SideDir(g, FE, f, i) ELSE Mod(SideDir(g, FE, f, i) + 4, 8)
DoubleOk(g, FE, n) == \A f \in 1..Len(g.F) : \A i \in 1..3 : SideKey(g, f, i) \in FE => Mod(n * SideDir(g, FE, f, i), 8) = 0     \* every constraint of a face asks for the same frame
IntEdges(g, D) == { k \in 1..Len(g.E) : IsInteriorEdge(D, g.E[k][1], g.E[k][2]) }
T1(g, D, k) == DirectFace(D, g.E[k][1], g.E[k][2]) + 1                    \* the face left of the stored direction of edge k
T2(g, D, k) == DirectFace(D, g.E[k][2], g.E[k][1]) + 1
SimplePairs(g, D) == \A k, l \in IntEdges(g, D) : k # l => {T1(g, D, k), T2(g, D, k)} # {T1(g, D, l), T2(g, D, l)}
Trans(g, D, FE, k) == Mod(EdgeAng(g, FE, T1(g, D, k), g.E[k][1], g.E[k][2]) - EdgeAng(g, FE, T2(g, D, k), g.E[k][1], g.E[k][2]), 8)   \* transport(T1, T2)

(* everything the matching needs from the mesh, tabulated once: per edge its two faces and its direction in each, per vertex its angle sum *)
Tab(g, D, FE) ==
  LET IE == IntEdges(g, D) IN
  [ie |-> IE,
   t1 |-> [e \in 1..Len(g.E) |-> IF e \in IE THEN T1(g, D, e) ELSE 0],
   t2 |-> [e \in 1..Len(g.E) |-> IF e \in IE THEN T2(g, D, e) ELSE 0],
   a1 |-> [e \in 1..Len(g.E) |-> IF e \in IE THEN EdgeAng(g, FE, T1(g, D, e), g.E[e][1], g.E[e][2]) ELSE 0],
   a2 |-> [e \in 1..Len(g.E) |-> IF e \in IE THEN EdgeAng(g, FE, T2(g, D, e), g.E[e][1], g.E[e][2]) ELSE 0],
   sk |-> [i \in 1..Len(g.P) |-> IF (i - 1) \in UsedVerts(D) THEN SumK(g, D, i - 1) ELSE 0],
   bd |-> BorderVerts(D),
   used |-> UsedVerts(D),
   E |-> g.E]
(* ------------------------------------------------ connection Laplacian  N* D N,  N[e,T1] = -1, N[e,T2] = exp(i n transport) ---- *)
EdgeW(g, D, k, cotan) == IF cotan THEN RInv(RMul(R(2), CotanWeight(g, D, k))) ELSE R(1)
WeightsOk(g, D, cotan) == ~cotan \/ \A k \in IntEdges(g, D) : CotanWeight(g, D, k)[2] # 0 /\ RLt(Zero, CotanWeight(g, D, k))
ConnLapT(tab, W, nf, n) ==            \* tab: the edge table below; W[k]: weight of edge k
  [a \in 1..nf |-> [b \in 1..nf |->
        IF a = b THEN [w |-> RSum([k \in 1..Len(tab.E) |-> IF k \in tab.ie /\ a \in {tab.t1[k], tab.t2[k]} THEN W[k] ELSE Zero]), k |-> 0]
        ELSE LET S == { k \in tab.ie : {tab.t1[k], tab.t2[k]} = {a, b} } IN
             IF S = {} THEN [w |-> Zero, k |-> 0]
             ELSE LET e == CHOOSE x \in S : TRUE
                      t == n * Mod(tab.a1[e] - tab.a2[e], 8)
                  IN [w |-> W[e], k |-> IF a = tab.t1[e] THEN Mod(t + 4, 8) ELSE Mod(4 - t, 8)]]]
ConnLap(g, D, FE, n, cotan) == LET tab == TLCEval(Tab(g, D, FE))
                                   W == TLCEval([k \in 1..Len(g.E) |-> IF k \in tab.ie THEN EdgeW(g, D, k, cotan) ELSE Zero])
                               IN ConnLapT(tab, W, Len(g.F), n)
Hermitian(L) == \A a, b \in 1..Len(L) : L[a][b].w = L[b][a].w /\ (RIsZero(L[a][b].w) \/ Mod(L[a][b].k + L[b][a].k, 8) = 0)
FlatReduces(L, S) == \A a, b \in 1..Len(L) : IF a = b THEN L[a][b].w = S[a][b] /\ L[a][b].k = 0
                                             ELSE IF RIsZero(L[a][b].w) THEN RIsZero(S[a][b]) ELSE L[a][b].k = 4 /\ RNeg(L[a][b].w) = S[a][b]
GaussianLap(L) == \A a, b \in 1..Len(L) : RIsZero(L[a][b].w) \/ L[a][b].k % 2 = 0

(* ------------------------------------------------ harmonic extension of the fixed frames ---- *)
SortedSeq(S) == LET RECURSIVE go(_) 
                    go(T) == IF T = {} THEN <<>> ELSE LET m == CHOOSE x \in T : \A y \in T : x <= y IN <<m>> \o go(T \ {m})
                IN go(S)
Harmonic(L, freeSeq, fixSeq, zfix) ==         \* zfix[q]: Gaussian rational frame of fixSeq[q];  answers [ok, x] with x[r] the value at freeSeq[r]
  LET m == Len(freeSeq)
      Lc(a, b) == PolarToC(L[a][b])
      Mx == [r \in 1..m |-> [c \in 1..(m + 1) |->
               IF c <= m THEN Lc(freeSeq[r], freeSeq[c])
               ELSE CNeg(CSum([q \in 1..Len(fixSeq) |-> CMul(Lc(freeSeq[r], fixSeq[q]), zfix[q])]))]]
  IN GSolve(TLCEval(Mx))

(* ------------------------------------------------ branch matching and holonomy, units of pi/(4n): a full turn is 8n ---- *)
AbsI(x) == IF x < 0 THEN -x ELSE x
CandRot(n, k1, A1, k2, A2, j) == Mod((k2 - n * A2) - (k1 + 8 * j - n * A1) + 4 * n, 8 * n) - 4 * n
RotSet(n, k1, A1, k2, A2) ==             \* the rotation(s) of least magnitude between a branch of face 1 and the first branch of face 2
  LET c0 == { CandRot(n, k1, A1, k2, A2, j) : j \in 0..(n - 1) }
      c == c0 \cup (IF -4 * n \in c0 THEN {4 * n} ELSE {})           \* half a turn either way is the same rotation (round-off decides its sign)
      m == CHOOSE x \in { AbsI(y) : y \in c } : \A z \in c : x <= AbsI(z)
  IN { x \in c : AbsI(x) = m }
EdgeRotSetT(tab, n, fk, e) ==        \* fk[f]: phase index of the frame of face f (frame = exp(i fk pi/4), the n-th power of its branches)
  IF e \notin tab.ie THEN {0} ELSE RotSet(n, fk[tab.t1[e]], tab.a1[e], fk[tab.t2[e]], tab.a2[e])
EdgeRotSet(g, D, FE, n, fk, e) == EdgeRotSetT(Tab(g, D, FE), n, fk, e)
DefectT(tab, n, v) == IF v \notin tab.used THEN 0 ELSE IF v \in tab.bd THEN 4 * n - n * tab.sk[v + 1] ELSE 8 * n - n * tab.sk[v + 1]
HolT(tab, n, rot, v) == DefectT(tab, n, v)
     + ISumI([e \in 1..Len(tab.E) |-> IF tab.E[e][1] = v THEN (IF tab.E[e][2] < v THEN rot[e] ELSE -rot[e])
                                      ELSE IF tab.E[e][2] = v THEN (IF tab.E[e][1] < v THEN rot[e] ELSE -rot[e]) ELSE 0])
Hol(g, D, n, rot, v) == HolT(Tab(g, D, << >>), n, rot, v)
InteriorVerts(g, D) == { v \in 0..(Len(g.P) - 1) : v \in UsedVerts(D) /\ v \notin BorderVerts(D) }
IndexOf(n, h) == Norm(<< h, 2 * n >>)                  \* the flagged value  angle * 2 / pi
Quantum(n, idx) == RMul(idx, << n, 4 >>)[2] = 1        \* idx is a whole multiple of 4 / n
SortedEdges(g) == \A e \in 1..Len(g.E) : g.E[e][1] < g.E[e][2]
=============================================================================
