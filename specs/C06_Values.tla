----------------------------- MODULE C06_Values -----------------------------
(* Value semantics of meshes.  Abstract state: for every mesh created so far (1..n) its    *)
(* vertex coordinates (sequence of points; a point is 3 exact rationals) and its elements   *)
(* (edges, faces, cells: sequences of index sequences).  Every operation is a pure function *)
(* on this state: nothing is shared between meshes, so no operation on one mesh can change  *)
(* another, and every transform maps every vertex exactly once.                             *)
EXTENDS Rotations, FiniteSets, TLC

Pt(x, y, z) == <<R(x), R(y), R(z)>>
Init0 == [val |-> <<>>, el |-> <<>>]
NoEl == [E |-> <<>>, F |-> <<>>, C |-> <<>>]

VProduce(s, pts, el) == [val |-> Append(s.val, pts), el |-> Append(s.el, el)]
VCopy(s, m)          == [val |-> Append(s.val, s.val[m]), el |-> Append(s.el, s.el[m])]

Shift(q, k) == [i \in 1..Len(q) |-> [j \in 1..Len(q[i]) |-> q[i][j] + k]]
RECURSIVE MergeFrom(_, _, _, _)
MergeFrom(s, ms, j, acc) ==          \* acc = [pts, el], running vertex count = Len(acc.pts)
  IF j > Len(ms) THEN acc
  ELSE LET m == ms[j]
           k == Len(acc.pts)
       IN MergeFrom(s, ms, j + 1,
            [pts |-> acc.pts \o s.val[m],
             el  |-> [E |-> acc.el.E \o Shift(s.el[m].E, k), F |-> acc.el.F \o Shift(s.el[m].F, k),
                      C |-> acc.el.C \o Shift(s.el[m].C, k)]])
VMerge(s, ms) == LET r == MergeFrom(s, ms, 1, [pts |-> <<>>, el |-> NoEl])
                 IN [val |-> Append(s.val, r.pts), el |-> Append(s.el, r.el)]

MapPts(s, m, f(_)) == [s EXCEPT !.val[m] = [i \in 1..Len(s.val[m]) |-> f(s.val[m][i])]]
VTranslate(s, m, t)      == MapPts(s, m, LAMBDA p : VAdd(p, t))
VScale(s, m, f, o)       == MapPts(s, m, LAMBDA p : VAdd(o, VMulS(f, VSub(p, o))))
VRotate(s, m, M, o)      == MapPts(s, m, LAMBDA p : VAdd(o, MatVec(M, VSub(p, o))))
VEditRebind(s, m, i, c)  == [s EXCEPT !.val[m][i] = c]

(* bounding box and normalisation *)
RECURSIVE FoldPts(_, _, _, _)
FoldPts(pts, k, op(_, _), acc) == IF pts = <<>> THEN acc ELSE FoldPts(Tail(pts), k, op, op(acc, pts[1][k]))
BMin(pts) == [k \in 1..3 |-> FoldPts(Tail(pts), k, RMin, pts[1][k])]
BMax(pts) == [k \in 1..3 |-> FoldPts(Tail(pts), k, RMax, pts[1][k])]
Span(pts) == VSub(BMax(pts), BMin(pts))
MaxSpan(pts) == LET sp == Span(pts) IN RMax(sp[1], RMax(sp[2], sp[3]))
Half == <<1, 2>>
VNormalize(s, m, centred) ==
  LET pts == s.val[m]
      sc == RInv(MaxSpan(pts))
      c  == VMulS(Half, VAdd(BMin(pts), BMax(pts)))
  IN IF centred THEN MapPts(s, m, LAMBDA p : VMulS(RMul(R(2), sc), VSub(p, c)))
     ELSE MapPts(s, m, LAMBDA p : VMulS(sc, VSub(p, BMin(pts))))
(* what the documentation promises about the result of normalize *)
NormalizedBox(pts, centred) ==
  IF centred THEN /\ VAdd(BMin(pts), BMax(pts)) = <<R(0), R(0), R(0)>>     \* centred at the origin
                  /\ MaxSpan(pts) = R(2)                                   \* largest extent 2
  ELSE /\ BMin(pts) = <<R(0), R(0), R(0)>> /\ MaxSpan(pts) = R(1)          \* anchored at 0, largest extent 1

=============================================================================
