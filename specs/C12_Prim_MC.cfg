CONSTANTS
  Lo = 0
  Hi = 2
SPECIFICATION Spec
INVARIANT Laws
CHECK_DEADLOCK FALSE
