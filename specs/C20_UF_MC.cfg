CONSTANTS
  N = 3
  D = 5
  EmitOn = TRUE
SPECIFICATION Spec
INVARIANT Invariant
PROPERTY AbstractStep
CONSTRAINT Emit
VIEW View
CHECK_DEADLOCK FALSE
