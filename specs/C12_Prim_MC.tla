----------------------------- MODULE C12_Prim_MC -----------------------------
(* The laws of the statement, checked on the specification's own definitions for EVERY     *)
(* pair of integer boxes and every integer point with coordinates in Lo..Hi, dimension 1..2  *)
(* (each combination is one initial state; there are no transitions).                        *)
EXTENDS C12_Primitives
CONSTANTS Lo, Hi
VARIABLES b1, b2, p
Coords == Lo..Hi
Boxes(d) == { [lo |-> l, hi |-> h] : l \in [1..d -> Coords], h \in [1..d -> Coords] }
Init == \E d \in 1..2 : b1 \in Boxes(d) /\ b2 \in Boxes(d) /\ p \in [1..d -> Coords]
Next == UNCHANGED <<b1, b2, p>>
Spec == Init /\ [][Next]_<<b1, b2, p>>
Valid(b) == \A i \in 1..Dim(b) : b.lo[i] <= b.hi[i]
Laws ==
  /\ Valid(b1) => /\ InClosed(b1, Project(b1, p))                                        \* projection lies in the closed box
                  /\ DistL1(b1, p) = ISum([i \in 1..Dim(b1) |-> LET g == p[i] - Project(b1, p)[i] IN IF g < 0 THEN -g ELSE g])
                  /\ \A q \in [1..Dim(b1) -> Coords] : InClosed(b1, q) =>                \* ... and realises the distance in each norm
                        /\ DistL2sq(b1, p) <= IDot(ISub(p, q), ISub(p, q))
                        /\ DistLinf(b1, p) <= IMax([i \in 1..Dim(b1) |-> LET g == p[i] - q[i] IN IF g < 0 THEN -g ELSE g])
                  /\ Contains(b1, p) => DistL1(b1, p) = 0 /\ DistLinf(b1, p) = 0 /\ DistL2sq(b1, p) = 0 /\ Project(b1, p) = p
  /\ (Valid(b1) /\ Valid(b2)) =>
        /\ \A q \in [1..Dim(b1) -> Coords] : (InClosed(b1, q) \/ InClosed(b2, q)) => InClosed(Union(b1, b2), q)
        /\ \A q \in [1..Dim(b1) -> Coords] : (InClosed(b1, q) /\ InClosed(b2, q)) <=> InClosed(Inter(b1, b2), q)
        /\ DoIntersect(b1, b2) <=> (\E q \in [1..Dim(b1) -> Coords] : InClosed(b1, q) /\ InClosed(b2, q))
  /\ BoxOf(<<b1.lo, b1.hi, p>>) = [lo |-> [i \in 1..Dim(b1) |-> Mn(Mn(b1.lo[i], b1.hi[i]), p[i])],
                                   hi |-> [i \in 1..Dim(b1) |-> Mx(Mx(b1.lo[i], b1.hi[i]), p[i])]]
=============================================================================
