--------------------------- MODULE C07_Quantities ---------------------------
(* Textbook definitions of the per-element quantities, evaluated EXACTLY on integer lattice  *)
(* meshes  g = [P (integer points), E, F, C].  Irrational results are carried by exact          *)
(* surrogates: lengths / areas squared, unit vectors as (component^2, sign), angles as            *)
(* (cos^2, sign cos) or - when the angle is a multiple of pi/4 - as the integer k in k*pi/4.      *)
(* A definition that has no exact surrogate on the given mesh answers "na" (the event is skipped). *)
EXTENDS MeshCore, Rat

Pt(g, v) == g.P[v + 1]
ISub(a, b) == << a[1] - b[1], a[2] - b[2], a[3] - b[3] >>
IAdd(a, b) == << a[1] + b[1], a[2] + b[2], a[3] + b[3] >>
ICr(a, b) == << a[2] * b[3] - a[3] * b[2], a[3] * b[1] - a[1] * b[3], a[1] * b[2] - a[2] * b[1] >>
IDt(a, b) == a[1] * b[1] + a[2] * b[2] + a[3] * b[3]
RV3(a) == << R(a[1]), R(a[2]), R(a[3]) >>
RECURSIVE ISumV(_)
ISumV(q) == IF q = <<>> THEN <<0, 0, 0>> ELSE IAdd(q[1], ISumV(Tail(q)))
RECURSIVE ISumI(_)
ISumI(q) == IF q = <<>> THEN 0 ELSE q[1] + ISumI(Tail(q))
RECURSIVE Bis(_, _, _)
Bis(x, lo, hi) == IF lo >= hi THEN lo ELSE LET mid == (lo + hi + 1) \div 2 IN IF mid * mid <= x THEN Bis(x, mid, hi) ELSE Bis(x, lo, mid - 1)
ISqrt(x) == Bis(x, 0, IF x < 46340 THEN x ELSE 46340)          \* integer square root by bisection (46340^2 < 2^31)
IsSq(x) == ISqrt(x) * ISqrt(x) = x
Sg(x) == IF x > 0 THEN 1 ELSE IF x < 0 THEN -1 ELSE 0

(* ---- faces ---- *)
FaceN(g, f) == LET t == g.F[f] IN ICr(ISub(Pt(g, t[2]), Pt(g, t[1])), ISub(Pt(g, t[3]), Pt(g, t[1])))          \* first three vertices
VecArea2(g, f) == LET t == g.F[f] IN ISumV([i \in 1..Len(t) |-> ICr(Pt(g, t[i]), Pt(g, t[(i % Len(t)) + 1]))])  \* twice the vector area
FacePlanar(g, f) == LET t == g.F[f] IN \A i \in 1..Len(t) : IDt(ISub(Pt(g, t[i]), Pt(g, t[1])), FaceN(g, f)) = 0
Area2x4(g, f) == IDt(VecArea2(g, f), VecArea2(g, f))                 \* (2 * area)^2 for a planar face
UnitSurrogate(n) == [sq |-> [k \in 1..3 |-> Norm(<<n[k] * n[k], IDt(n, n)>>)], sg |-> [k \in 1..3 |-> Sg(n[k])]]
Bary(g, ids) == [k \in 1..3 |-> Norm(<<ISumI([i \in 1..Len(ids) |-> Pt(g, ids[i])[k]]), Len(ids)>>)]

(* circumcentre of a triangle: equidistant from its vertices and in its plane *)
RD2(p, q) == VDot(VSub(p, q), VSub(p, q))
CircOk(g, f, r) == LET t == g.F[f]
                       a == RV3(Pt(g, t[1]))
                       b == RV3(Pt(g, t[2]))
                       c == RV3(Pt(g, t[3]))
                   IN /\ \A i \in 1..3 : r[i][2] > 0
                      /\ RD2(r, a) = RD2(r, b) /\ RD2(r, a) = RD2(r, c)
                      /\ RIsZero(VDot(VSub(r, a), RV3(FaceN(g, f))))

(* ---- corners ---- *)
CornerVecs(g, D, c) == LET h == Cn(D, c) IN << ISub(Pt(g, h.pv), Pt(g, h.v)), ISub(Pt(g, h.nx), Pt(g, h.v)) >>
AngSurrogate(u, w) == [c2 |-> Norm(<<IDt(u, w) * IDt(u, w), IDt(u, u) * IDt(w, w)>>), sc |-> Sg(IDt(u, w))]
CotSurrogate(u, w) == [c2 |-> Norm(<<IDt(u, w) * IDt(u, w), IDt(ICr(u, w), ICr(u, w))>>), sg |-> Sg(IDt(u, w))]
AngK(u, w) == LET d == IDt(u, w)        \* the angle as k * pi/4, 0 if it is not such a multiple
                  c2 == IDt(ICr(u, w), ICr(u, w))
              IN IF d = 0 THEN 2 ELSE IF d > 0 /\ d * d = c2 THEN 1 ELSE IF d < 0 /\ d * d = c2 THEN 3 ELSE IF c2 = 0 /\ d < 0 THEN 4 ELSE 0
CornerK(g, D, c) == LET uv == CornerVecs(g, D, c) IN AngK(uv[1], uv[2])
CotRat(u, w) == LET c2 == IDt(ICr(u, w), ICr(u, w)) IN IF IsSq(c2) /\ c2 > 0 THEN Norm(<<IDt(u, w), ISqrt(c2)>>) ELSE <<0, 0>>    \* <<0,0>> = not rational

(* cotangent weight of edge e: half the sum of the cotangents of the angles opposite to it *)
OppCot(g, D, u, v) == IF ~HasHE(D, u, v) THEN R(0)
                      ELSE LET h == D.hm[<<u, v>>]
                               o == Cn(D, PrevC(D, h.c)).v            \* the third vertex of the triangle left of u -> v
                           IN CotRat(ISub(Pt(g, u), Pt(g, o)), ISub(Pt(g, v), Pt(g, o)))
CotanWeight(g, D, e) == LET u == g.E[e][1]
                            v == g.E[e][2]
                            a == OppCot(g, D, u, v)
                            b == OppCot(g, D, v, u)
                        IN IF a[2] = 0 \/ b[2] = 0 THEN <<0, 0>> ELSE RMul(<<1, 2>>, RAdd(a, b))

(* ---- vertices ---- *)
AxisUnit(n) == IF Cardinality({ k \in 1..3 : n[k] # 0 }) = 1 THEN [k \in 1..3 |-> Sg(n[k])] ELSE <<0, 0, 0>>      \* unit normal when it is a coordinate axis
VNormalDir(g, D, v, mode) ==        \* an integer vector parallel to the vertex normal, <<0,0,0>> when there is no exact surrogate
  LET cs == SetToSeq(D.cv[v]) IN
  IF mode = "area" THEN ISumV([i \in 1..Len(cs) |-> VecArea2(g, Cn(D, cs[i]).f + 1)])
  ELSE IF \E i \in 1..Len(cs) : AxisUnit(FaceN(g, Cn(D, cs[i]).f + 1)) = <<0, 0, 0>> THEN <<0, 0, 0>>
  ELSE IF mode = "uniform" THEN ISumV([i \in 1..Len(cs) |-> AxisUnit(FaceN(g, Cn(D, cs[i]).f + 1))])
  ELSE IF \E i \in 1..Len(cs) : CornerK(g, D, cs[i]) = 0 THEN <<0, 0, 0>>
  ELSE ISumV([i \in 1..Len(cs) |-> LET a == AxisUnit(FaceN(g, Cn(D, cs[i]).f + 1)) IN
                                   << CornerK(g, D, cs[i]) * a[1], CornerK(g, D, cs[i]) * a[2], CornerK(g, D, cs[i]) * a[3] >>])
SumK(g, D, v) == ISumI([i \in 1..Cardinality(D.cv[v]) |-> CornerK(g, D, SetToSeq(D.cv[v])[i])])
AllK(g, D, v) == \A c \in D.cv[v] : CornerK(g, D, c) # 0
(* angle defect / pi as an exact rational *)
Defect(g, D, v, zeroBorder) == IF v \in BorderVerts(D) THEN (IF zeroBorder THEN R(0) ELSE Norm(<<4 - SumK(g, D, v), 4>>))
                               ELSE Norm(<<8 - SumK(g, D, v), 4>>)
Degree(g, v) == Cardinality({ k \in 1..Len(g.E) : v \in {g.E[k][1], g.E[k][2]} })

(* ---- cells ---- *)
Det3(a, b, c) == a[1] * (b[2] * c[3] - b[3] * c[2]) - a[2] * (b[1] * c[3] - b[3] * c[1]) + a[3] * (b[1] * c[2] - b[2] * c[1])
CellVol(g, c) == LET t == g.C[c]
                     d == Det3(ISub(Pt(g, t[1]), Pt(g, t[4])), ISub(Pt(g, t[2]), Pt(g, t[4])), ISub(Pt(g, t[3]), Pt(g, t[4])))
                 IN Norm(<<IF d < 0 THEN -d ELSE d, 6>>)

(* ---- rigid motions with integer entries: signed permutation matrices (the 24 rotations of the cube are among them), integer scale, translation ---- *)
MatI(M, p) == << IDt(M[1], p), IDt(M[2], p), IDt(M[3], p) >>
Motion(g, M, s, t) == [g EXCEPT !.P = [i \in 1..Len(g.P) |-> IAdd(<< s * MatI(M, g.P[i])[1], s * MatI(M, g.P[i])[2], s * MatI(M, g.P[i])[3] >>, t)]]
=============================================================================
