SPECIFICATION Spec
CONSTANTS
  MaxLen = 4
  Mode = "iterators"
INVARIANT IterLaws
CHECK_DEADLOCK FALSE
