------------------------------- MODULE X01_Aux -------------------------------
(* Behaviour of mouette outside the twenty listed properties, specified the same way (exact, executable):   *)
(*  - utils.iterators: the sequence helpers every algorithm of the library is written with;                   *)
(*  - PolyLine connectivity (mesh/datatypes/linear.py): neighbours, incident edges, edge ids from the edge list; *)
(*  - attributes.interpolate: moving an attribute between vertices, faces and face corners (means, sums,        *)
(*    area- and angle-weighted means) - exact rationals on lattice meshes, angles in units of pi/4.              *)
EXTENDS C08_Operators

Md(x, m) == (((x % m) + m) % m)
(* ---- utils.iterators on a sequence L (python lists, 0-based there) ---- *)
CyclicPairs(L) == [i \in 1..Len(L) |-> << L[i], L[(i % Len(L)) + 1] >>]
CyclicPairsEnum(L) == [i \in 1..Len(L) |-> << << i - 1, i % Len(L) >>, << L[i], L[(i % Len(L)) + 1] >> >>]
CyclicTriplets(L) == [i \in 1..Len(L) |-> << L[Md(i - 2, Len(L)) + 1], L[i], L[(i % Len(L)) + 1] >>]
ConsecutivePairs(L) == [i \in 1..(IF Len(L) = 0 THEN 0 ELSE Len(L) - 1) |-> << L[i], L[i + 1] >>]
ConsecutiveTriplets(L) == [i \in 1..(IF Len(L) < 2 THEN 0 ELSE Len(L) - 2) |-> << L[i], L[i + 1], L[i + 2] >>]
CyclicPermutations(L) == [j \in 1..Len(L) |-> [i \in 1..Len(L) |-> L[Md(i - j, Len(L)) + 1]]]           \* the j-th one is L rotated right by j - 1
CyclicPermEnum(L) == [j \in 1..Len(L) |-> [i \in 1..Len(L) |-> << Md(i - j, Len(L)), L[Md(i - j, Len(L)) + 1] >>]]
Offset(L, k) == [i \in 1..Len(L) |-> L[Md(i - 1 + k, Len(L)) + 1]]

(* ---- PolyLine connectivity from the edge list E (pairs of vertex ids), nv vertices ---- *)
PLNeighbours(E, v) == { E[k][2] : k \in { j \in 1..Len(E) : E[j][1] = v } } \cup { E[k][1] : k \in { j \in 1..Len(E) : E[j][2] = v } }
PLEdgeId(E, a, b) == LET S == { k \in 1..Len(E) : {E[k][1], E[k][2]} = {a, b} } IN IF S = {} THEN None ELSE (CHOOSE k \in S : \A j \in S : j <= k) - 1
PLOtherEnd(E, e, v) == IF E[e + 1][1] = v THEN E[e + 1][2] ELSE IF E[e + 1][2] = v THEN E[e + 1][1] ELSE None

(* ---- attributes.interpolate on a surface g = [P, F, E], D its derived connectivity; attribute values are rationals ---- *)
FacesOf(g, v) == { f \in 1..Len(g.F) : v \in SeqSet(g.F[f]) }
RSumSet(S, val(_)) == RSum([i \in 1..Cardinality(S) |-> val(SetToSeq(S)[i])])
V2FMean(g, va) == [f \in 1..Len(g.F) |-> RDiv(RSum([i \in 1..Len(g.F[f]) |-> va[g.F[f][i] + 1]]), R(Len(g.F[f])))]
F2VSum(g, fa) == [v \in 1..Len(g.P) |-> RSumSet(FacesOf(g, v - 1), LAMBDA f : fa[f])]
F2VUniform(g, fa) == [v \in 1..Len(g.P) |-> RDiv(F2VSum(g, fa)[v], R(Cardinality(FacesOf(g, v - 1))))]
F2VArea(g, fa) == [v \in 1..Len(g.P) |-> RDiv(RSumSet(FacesOf(g, v - 1), LAMBDA f : RMul(fa[f], FArea(g, f))), RSumSet(FacesOf(g, v - 1), LAMBDA f : FArea(g, f)))]
(* corners: corner c (0-based) is at vertex Cn(D, c).v of face Cn(D, c).f; its angle is CornerK(g, D, c) * pi / 4 *)
NCorners(D) == Len(D.cn)
CornersOfV(D, v) == D.cv[v]
CornersOfF(D, f) == { c \in 0..(NCorners(D) - 1) : Cn(D, c).f = f }
F2VAngle(g, D, fa) == [v \in 1..Len(g.P) |-> RDiv(RSumSet(CornersOfV(D, v - 1), LAMBDA c : RMul(fa[Cn(D, c).f + 1], R(CornerK(g, D, c)))),
                                                RSumSet(CornersOfV(D, v - 1), LAMBDA c : R(CornerK(g, D, c))))]
V2Corners(D, va) == [c \in 1..NCorners(D) |-> va[Cn(D, c - 1).v + 1]]
F2Corners(D, fa) == [c \in 1..NCorners(D) |-> fa[Cn(D, c - 1).f + 1]]
C2VSum(g, D, ca) == [v \in 1..Len(g.P) |-> RSumSet(CornersOfV(D, v - 1), LAMBDA c : ca[c + 1])]
C2VUniform(g, D, ca) == [v \in 1..Len(g.P) |-> RDiv(C2VSum(g, D, ca)[v], R(Cardinality(CornersOfV(D, v - 1))))]
C2VAngle(g, D, ca) == [v \in 1..Len(g.P) |-> RDiv(RSumSet(CornersOfV(D, v - 1), LAMBDA c : RMul(ca[c + 1], R(CornerK(g, D, c)))),
                                                RSumSet(CornersOfV(D, v - 1), LAMBDA c : R(CornerK(g, D, c))))]
C2FSum(g, D, ca) == [f \in 1..Len(g.F) |-> RSumSet(CornersOfF(D, f - 1), LAMBDA c : ca[c + 1])]
C2FUniform(g, D, ca) == [f \in 1..Len(g.F) |-> RDiv(C2FSum(g, D, ca)[f], R(Len(g.F[f])))]
C2FAngle(g, D, ca) == [f \in 1..Len(g.F) |-> RDiv(RSumSet(CornersOfF(D, f - 1), LAMBDA c : RMul(ca[c + 1], R(CornerK(g, D, c)))),
                                                RSumSet(CornersOfF(D, f - 1), LAMBDA c : R(CornerK(g, D, c))))]
AnglesAvail(g, D) == \A c \in 0..(NCorners(D) - 1) : CornerK(g, D, c) # 0
NoIsolated(g) == \A v \in 0..(Len(g.P) - 1) : FacesOf(g, v) # {}
=============================================================================
