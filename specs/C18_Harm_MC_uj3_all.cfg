SPECIFICATION Spec
CONSTANTS
  MeshId = "uj3"
  Orders = {2, 4, 6}
  Cotan = FALSE
  RotFaces = {1, 2, 4, 7, 9, 10, 13, 18}
INVARIANT HermitianThm
INVARIANT FlatThm
INVARIANT GaugeThm
INVARIANT Solved
INVARIANT InvarianceThm
CHECK_DEADLOCK FALSE
