------------------------------- MODULE C16_MC -------------------------------
(* Design check of the cutting algorithm, independent of edge weights.  For a small surface, every  *)
(* set S of singular vertices (|S| <= MaxS), every forest T (|T| <= MaxT) linking S and the border,    *)
(* and EVERY dual spanning tree that avoids T (grown one face at a time):  complement, pruning and      *)
(* re-gluing give a topological disk with every singular vertex on its border, and the cut graph is     *)
(* connected and contains the original border - except the closed sphere with fewer than two            *)
(* singular vertices, which stays uncut.                                                                 *)
EXTENDS C16_Cutting
CONSTANTS Surface, MaxS, MaxT
VARIABLES S, T, reached, DT
vars == <<S, T, reached, DT>>
Faces == CASE Surface = "tetrahedron" -> << <<0, 1, 2>>, <<0, 3, 1>>, <<1, 3, 2>>, <<0, 2, 3>> >>
           [] Surface = "pyramid"  -> << <<0, 1, 4>>, <<1, 2, 4>>, <<2, 3, 4>>, <<3, 0, 4>> >>                 \* disk
           [] Surface = "annulus"  -> << <<0, 1, 3>>, <<1, 4, 3>>, <<1, 2, 4>>, <<2, 5, 4>>, <<2, 0, 5>>, <<0, 3, 5>> >>
           [] Surface = "octahedron" -> << <<0, 1, 2>>, <<0, 2, 3>>, <<0, 3, 4>>, <<0, 4, 1>>, <<5, 2, 1>>, <<5, 3, 2>>, <<5, 4, 3>>, <<5, 1, 4>> >>
NVs == CASE Surface = "tetrahedron" -> 4 [] Surface = "pyramid" -> 5 [] OTHER -> 6
EdgesOf(F) == SetToSeq({ Key(F[k][i], F[k][(i % 3) + 1]) : k \in 1..Len(F), i \in 1..3 })
D == Derive(Faces, NVs, EdgesOf(Faces))
(* T links S and the border: in the graph of T-edges with all border vertices merged, S u {border} is connected; T is a forest there *)
Quot(v) == IF v \in BorderVerts(D) THEN -1 ELSE v
LinksAll(Tset, Sset) ==
  LET nodes == { Quot(v) : v \in Sset } \cup (IF BorderVerts(D) # {} THEN {-1} ELSE {})
      R == Sym({ <<Quot(EdgeV(D, e)[1]), Quot(EdgeV(D, e)[2])>> : e \in Tset })
  IN nodes = {} \/ \E c \in CompsOf(nodes \cup { p[1] : p \in R }, R) : nodes \subseteq c
(* ... and T is a forest once the border is contracted to one node (no T-cycle, no chord between two border vertices) *)
IsQuotForest(Tset) ==
  LET prs == { <<Quot(EdgeV(D, e)[1]), Quot(EdgeV(D, e)[2])>> : e \in Tset }
      nodes == UNION { {p[1], p[2]} : p \in prs }
  IN /\ \A p \in prs : p[1] # p[2]
     /\ Cardinality({ {p[1], p[2]} : p \in prs }) = Cardinality(Tset)
     /\ Cardinality(Tset) = Cardinality(nodes) - Cardinality(CompsOf(nodes, Sym(prs)))
Init == /\ S \in { X \in SUBSET (0..(NVs - 1)) : Cardinality(X) <= MaxS }
        /\ T \in { X \in SUBSET AllE(D) : Cardinality(X) <= MaxT /\ \A e \in X : IsInteriorE(D, e) }
        /\ LinksAll(T, S) /\ IsQuotForest(T)
        /\ reached = {0} /\ DT = {}
Grow1(e) == /\ IsInteriorE(D, e) /\ e \notin T
            /\ LET f == DirectFace(D, EdgeV(D, e)[1], EdgeV(D, e)[2])
                   g == DirectFace(D, EdgeV(D, e)[2], EdgeV(D, e)[1])
               IN /\ (f \in reached) # (g \in reached)
                  /\ reached' = reached \cup {f, g}
            /\ DT' = DT \cup {e} /\ UNCHANGED <<S, T>>
Next == \E e \in AllE(D) : Grow1(e)
Spec == Init /\ [][Next]_vars
Done == ~(\E e \in AllE(D) : IsInteriorE(D, e) /\ e \notin T
            /\ (DirectFace(D, EdgeV(D, e)[1], EdgeV(D, e)[2]) \in reached) # (DirectFace(D, EdgeV(D, e)[2], EdgeV(D, e)[1]) \in reached))
CutIsADisk == (Done /\ reached = 0..(D.nf - 1)) =>
   LET cut == CutOf(D, S, DT)
       Dc == CutMeshD(D, cut)
   IN IF IsSphere(D) /\ Cardinality(S) < 2
      THEN cut = {}                                                        \* left uncut
      ELSE IF IsClosed(D) /\ Cardinality(cut) = 1
      THEN ~IsDisk(Dc)         \* DESIGN GAP (known finding C16/single_edge_cut): a cut graph made of ONE edge on a closed surface
                               \* duplicates no vertex - an indexed mesh cannot express the slit, the output is still closed
      ELSE /\ IsManifold(Dc) /\ IsDisk(Dc)
           /\ SingularOnBorder(D, S, Dc, cut)
           /\ CutGraphConnected(D, cut) /\ BorderE(D) \subseteq cut
DualTreeSpans == Done => reached = 0..(D.nf - 1)          \* a forest T never separates the faces
=============================================================================
