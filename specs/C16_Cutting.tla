----------------------------- MODULE C16_Cutting -----------------------------
(* Cutting a triangulated surface open along a graph of edges.                                  *)
(*   D      MeshCore record of the surface (edge list E gives edge ids)                           *)
(*   S      singular vertices                                                                      *)
(*   T      edge ids the dual tree may not cross (a forest linking S and the border)               *)
(*   DT     edge ids crossed by the dual spanning tree                                             *)
(*   cut    = (all edges \ DT), then leaves that are not singular are pruned away repeatedly        *)
(* The cut mesh has one vertex per class of corners, corners being identified across every interior  *)
(* edge that is NOT cut.                                                                             *)
EXTENDS MeshCore

EdgeV(D, e) == D.E[e + 1]
AllE(D) == 0..(Len(D.E) - 1)
IsInteriorE(D, e) == HasHE(D, EdgeV(D, e)[1], EdgeV(D, e)[2]) /\ HasHE(D, EdgeV(D, e)[2], EdgeV(D, e)[1])
BorderE(D) == { e \in AllE(D) : ~IsInteriorE(D, e) }
DegIn(D, es, v) == Cardinality({ e \in es : v \in {EdgeV(D, e)[1], EdgeV(D, e)[2]} })
RECURSIVE Prune(_, _, _)
Prune(D, S, es) == LET leaves == { e \in es : \E v \in {EdgeV(D, e)[1], EdgeV(D, e)[2]} : DegIn(D, es, v) = 1 /\ v \notin S }
                   IN IF leaves = {} THEN es ELSE Prune(D, S, es \ leaves)
CutOf(D, S, DT) == Prune(D, S, AllE(D) \ DT)

(* dual spanning tree: crosses only interior edges outside T, reaches every face, has F - 1 edges *)
DualPairs(D, es) == { <<DirectFace(D, EdgeV(D, e)[1], EdgeV(D, e)[2]), DirectFace(D, EdgeV(D, e)[2], EdgeV(D, e)[1])>> : e \in es }
IsDualSpanningTree(D, T, DT) ==
  /\ DT \subseteq AllE(D) /\ \A e \in DT : IsInteriorE(D, e) /\ e \notin T
  /\ Cardinality(DT) = D.nf - 1
  /\ Cardinality(CompsOf(0..(D.nf - 1), Sym(DualPairs(D, DT)))) = 1

(* classes of corners of the cut mesh *)
CornerGlue(D, cut) ==
  UNION { LET a == EdgeV(D, e)[1]
              b == EdgeV(D, e)[2]
              c1 == HE2C(D, a, b)            \* corner at a in the face left of a->b
              c2 == HE2C(D, b, a)            \* corner at b in the face left of b->a
          IN { <<c1, NextC(D, c2)>>, <<NextC(D, c1), c2>> } : e \in { x \in AllE(D) : IsInteriorE(D, x) /\ x \notin cut } }
CutClasses(D, cut) == CompsOf(0..(D.nc - 1), Sym(CornerGlue(D, cut)))
ClassOf(cls, c) == CHOOSE k \in cls : c \in k
(* the cut mesh as a face list over class numbers (numbering by smallest corner) *)
CutFaces(D, cut) ==
  LET cls == CutClasses(D, cut)
      ord == SetToSeq({ Min(k) : k \in cls })
      num(k) == (CHOOSE i \in 1..Len(ord) : ord[i] = Min(k)) - 1
  IN [f \in 1..D.nf |-> [i \in 1..Len(D.F[f]) |-> num(ClassOf(cls, D.off[f] + i - 1))]]
CutMeshD(D, cut) == LET Fc == CutFaces(D, cut) IN Derive(Fc, Cardinality(CutClasses(D, cut)), <<>>)

IsSphere(D) == IsClosed(D) /\ NComponents(D) = 1 /\ Euler(D) = 2
(* what the statement promises about a cut *)
CutGraphConnected(D, cut) ==
  cut = {} \/ Cardinality(CompsOf(UNION { {EdgeV(D, e)[1], EdgeV(D, e)[2]} : e \in cut },
                                  Sym({ <<EdgeV(D, e)[1], EdgeV(D, e)[2]>> : e \in cut }))) = 1
SingularOnBorder(D, S, Dc, cut) ==      \* every singular vertex has a copy on the border of the cut mesh
  \A s \in S : \E c \in D.cv[s] : LET k == CutFaces(D, cut)[Cn(D, c).f + 1][Cn(D, c).i + 1] IN k \in BorderVerts(Dc)
=============================================================================
