----------------------------- MODULE C11_KNN_MC -----------------------------
(* The k-nearest search of the library transcribed as a function of (tree, query, k), checked  *)
(* for EVERY point sequence of NP points of {0,2,4}^Dim, every query of {-1,1,3,5}^Dim and every   *)
(* k in 1..NP+1, on the tree the median strategy builds (each combination is one initial state).    *)
(* Depth-first search with a bounded max-heap `found`; a child is pushed only when its box can still  *)
(* improve the answer.  AsBuilt: the pinned source compares with the current worst candidate even     *)
(* while fewer than k candidates are held ("knn_prunes_before_k").                                     *)
EXTENDS C11_KD
CONSTANTS NP, Dim, Leaf, AsBuilt
VARIABLES pts, q, k

(* ---- the tree, numbered in breadth-first order as the builder does ---- *)
RECURSIVE BuildQ(_, _, _, _)
BuildQ(P, queue, nodes, nid) ==         \* queue entries: [id, S, axis, lo, hi]
  IF queue = <<>> THEN nodes
  ELSE LET l == queue[1] IN
       IF MustClose(P, l.S, Leaf, FALSE)
       THEN BuildQ(P, Tail(queue), nodes @@ (l.id :> [leaf |-> TRUE, S |-> l.S, lo |-> l.lo, hi |-> l.hi, left |-> -1, right |-> -1]), nid)
       ELSE LET p == Median(P, l.S, l.axis)
                sp == SplitOf(P, l.S, l.axis, p, FALSE)
                nx == (l.axis + 1) % Dim
                a == [id |-> nid, S |-> sp[1], axis |-> nx, lo |-> l.lo, hi |-> [l.hi EXCEPT ![l.axis + 1] = p]]
                b == [id |-> nid + 1, S |-> sp[2], axis |-> nx, lo |-> [l.lo EXCEPT ![l.axis + 1] = p], hi |-> l.hi]
            IN BuildQ(P, Tail(queue) \o <<a, b>>,
                      nodes @@ (l.id :> [leaf |-> FALSE, S |-> {}, lo |-> l.lo, hi |-> l.hi, left |-> nid, right |-> nid + 1]), nid + 2)
Tree(P) == BuildQ(P, << [id |-> 0, S |-> 0..(Len(P) - 1), axis |-> 0, lo |-> [a \in 1..Dim |-> -100], hi |-> [a \in 1..Dim |-> 100]] >>, <<>>, 1)

BoxD2(n, x) == LET RECURSIVE Sm(_) Sm(a) == IF a > Len(x) THEN 0 ELSE
                      (LET g == IF x[a] < n.lo[a] THEN n.lo[a] - x[a] ELSE IF x[a] > n.hi[a] THEN x[a] - n.hi[a] ELSE 0 IN g * g) + Sm(a + 1)
               IN Sm(1)
Worst(found) == CHOOSE e \in found : \A f \in found : f[2] <= e[2]
RECURSIVE Trim(_, _)
Trim(found, kk) == IF Cardinality(found) > kk THEN Trim(found \ {Worst(found)}, kk) ELSE found
RECURSIVE AddAll(_, _, _, _, _)
AddAll(P, found, S, x, kk) == IF S = {} THEN found
                              ELSE LET i == CHOOSE j \in S : TRUE IN AddAll(P, Trim(found \cup {<<i, D2(P, i, x)>>}, kk), S \ {i}, x, kk)
RECURSIVE Search(_, _, _, _, _, _)
Search(P, T, stack, found, x, kk) ==
  IF stack = <<>> THEN found
  ELSE LET id == stack[Len(stack)]
           rest == SubSeq(stack, 1, Len(stack) - 1)
           n == T[id]
       IN IF n.leaf THEN Search(P, T, rest, AddAll(P, found, n.S, x, kk), x, kk)
          ELSE LET full == Cardinality(found) >= kk
                   bound == IF found = {} \/ (~AsBuilt /\ ~full) THEN 1000000 ELSE Worst(found)[2]
                   dl == BoxD2(T[n.left], x)
                   dr == BoxD2(T[n.right], x)
                   order == IF dl <= dr THEN <<n.left, n.right>> ELSE <<n.right, n.left>>     \* sorted by distance; the stack visits the last first
                   push == SelectSeq(order, LAMBDA c : bound > BoxD2(T[c], x))
               IN Search(P, T, rest \o push, found, x, kk)

Init == /\ pts \in [1..NP -> [1..Dim -> {0, 2, 4}]] /\ q \in [1..Dim -> {-1, 1, 3, 5}] /\ k \in 1..(NP + 1)
Next == UNCHANGED <<pts, q, k>>
Spec == Init /\ [][Next]_<<pts, q, k>>
Result == Search(pts, Tree(pts), <<0>>, {}, q, k)
KNearest == LET r == Result IN
            /\ Cardinality(r) = (IF k < NP THEN k ELSE NP)
            /\ \A i \in (0..(NP - 1)) \ { e[1] : e \in r } : \A e \in r : e[2] <= D2(pts, i, q)
=============================================================================
