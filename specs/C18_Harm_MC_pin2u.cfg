SPECIFICATION Spec
CONSTANTS
  MeshId = "pin2"
  Orders = {2, 4, 6}
  Cotan = FALSE
  RotFaces = {1, 2, 3, 4, 5, 6}
INVARIANT HermitianThm
INVARIANT FlatThm
INVARIANT GaugeThm
INVARIANT Solved
INVARIANT InvarianceThm
CHECK_DEADLOCK FALSE
