------------------------------ MODULE C02_Trace ------------------------------
(* Judges the containers of meshes constructed from raw data against C02_Build.              *)
(* Case: given.raw (as C02_Build), given.container in {"list","tuple","numpy_row",              *)
(* "from_arrays"}.  Events: "build" (construct), "rebuild" (construct again from the built      *)
(* mesh's containers); each carries obs = the observed containers and attributes.               *)
EXTENDS TraceKit, C02_Build
VARIABLES ci, ei, st, nj, ns, ne

RawOf(g) == [nv |-> g.raw.nv, E |-> g.raw.E, F |-> g.raw.F, C |-> g.raw.C,
             att |-> { <<p[1], p[2]>> : p \in SeqToSet(g.raw.att) },
             completeE |-> g.raw.completeE, completeF |-> g.raw.completeF]
InitState(c) == [raw |-> RawOf(c.given), want |-> Build(RawOf(c.given)), cont |-> c.given.container]

IsRot(a, b) == Len(a) = Len(b) /\ \E k \in 0..(Len(a) - 1) : \A i \in 1..Len(a) : a[i] = b[((i - 1 + k) % Len(b)) + 1]
Clauses(want, raw, o) ==
  LET nd == Len(Declared(raw))
      nf == Len(raw.F)
  IN
  << << o.cls = want.cls,                                   "class_matches_highest_dimension" >>,
     << o.nv = want.nv /\ o.v3d = 1,                        "vertices_are_3d_vectors" >>,
     << Len(o.E) >= nd /\ SubSeq(o.E, 1, nd) = Declared(raw), "declared_edges_kept_in_order_low_index_first_invalid_dropped" >>,
     << SeqToSet(o.E) = SeqToSet(want.E) /\ Len(o.E) = Len(want.E), "edges_are_declared_plus_every_face_side_exactly_once" >>,
     << Len(o.F) = Len(want.F) /\ SubSeq(o.F, 1, nf) = raw.F
        /\ \A k \in (nf + 1)..Len(want.F) : IsRot(o.F[k], want.F[k]),   "faces_completed_from_cells_shared_face_once" >>,
     << o.C = want.C,                                       "cells_kept" >>,
     << o.fc = want.fc,                                     "one_face_corner_per_face_vertex_with_owner" >>,
     << o.cc = want.cc,                                     "one_cell_corner_per_cell_vertex_with_owner" >>,
     << o.cf = want.cf,                                     "one_cell_face_per_incidence_with_owner" >>,
     << SeqToSet(o.hard) = want.hard,                       "only_declared_edges_flagged_hard" >>,
     << SeqToSet(o.hard_entries) = want.hard,               "only_declared_edges_carry_a_hard_flag_entry" >>,       \* what feature detection and the writers iterate over
     << { <<p[1], p[2]>> : p \in SeqToSet(o.att) } = want.att, "surviving_edges_keep_their_attribute_values" >> >>

Cls(s) == s.cont \o "/" \o s.want.cls \o (IF s.raw.completeE THEN "" ELSE "/noCompleteE") \o (IF s.raw.completeF THEN "" ELSE "/noCompleteF")
Judge(c, s, e) ==
  IF e.exc # "" THEN Bad(IF e.op = "build" THEN "construction_succeeds" ELSE IF e.op = "extend" THEN "building_the_extended_data_succeeds" ELSE "building_again_succeeds", Cls(s), e.exc, s)
  ELSE IF e.op = "build" THEN Check(Clauses(s.want, s.raw, e.obs), Cls(s), "", s)
  ELSE IF e.op = "rebuild" THEN        \* building again from the already built mesh changes nothing
       LET want2 == Rebuild(s.want, s.raw.completeE, s.raw.completeF)
           cl == Clauses(want2, AsRaw(s.want, s.raw.completeE, s.raw.completeF), e.obs)
       IN Check([i \in 1..Len(cl) |-> <<cl[i][1], "rebuild_" \o cl[i][2]>>], Cls(s), "", s)
  ELSE IF e.op = "extend" THEN         \* the built mesh wrapped again, one vertex and the face e.newF appended behind the existing records, built again
       LET b == s.want
           r3 == [AsRaw(b, s.raw.completeE, s.raw.completeF) EXCEPT !.nv = b.nv + 1, !.F = b.F \o << e.newF >>]
           want3 == [Build(r3) EXCEPT !.hard = IF HardFlagsExist(s.raw) THEN b.hard ELSE Hard(r3)]
           cl == Clauses(want3, r3, e.obs)
       IN Check([i \in 1..Len(cl) |-> <<cl[i][1], "extend_" \o cl[i][2]>>], Cls(s), "", s)
  ELSE Bad("unknown_operation", e.op, "", s)

W == INSTANCE Walker
Spec == W!Spec
=============================================================================
