------------------------------ MODULE C20_UF ------------------------------
(* Union-find, at the grain of mouette.utils.unionfind.UnionFind.                       *)
(* A state is a record  s = [elts, par, siz, nelts, ncomps, part]                        *)
(*   elts   sequence of element ids in insertion order (the code's _elts)                *)
(*   par    parent table, 1-based positions into elts (the code's _par, 0-based)         *)
(*   siz    size table, meaningful at roots                                              *)
(*   part   ABSTRACT state: the partition of the added elements (set of blocks)          *)
(* The operators are pure so that the bounded model (C20_UF_MC) and the trace            *)
(* validator (C20_Trace) run exactly the same definitions.                               *)
EXTENDS Naturals, Sequences, FiniteSets, TLC

Empty == [elts |-> <<>>, par |-> <<>>, siz |-> <<>>, nelts |-> 0, ncomps |-> 0, part |-> {}]

Has(s, x)   == \E i \in 1..Len(s.elts) : s.elts[i] = x
Pos(s, x)   == CHOOSE i \in 1..Len(s.elts) : s.elts[i] = x
Added(s)    == { s.elts[i] : i \in 1..Len(s.elts) }
BlockOf(s, x) == CHOOSE b \in s.part : x \in b
SameBlock(s, x, y) == \E b \in s.part : x \in b /\ y \in b

(* find with path halving, exactly the loop of the code: returns <<root position, par'>> *)
RECURSIVE FindH(_, _)
FindH(p, pr) == IF pr[p] = p THEN <<p, pr>>
                ELSE LET q == pr[p] IN FindH(q, [pr EXCEPT ![p] = pr[q]])

(* root without compression, for invariants; fuel guards against a cyclic table *)
RECURSIVE RootOf(_, _, _)
RootOf(pr, p, fuel) == IF pr[p] = p \/ fuel = 0 THEN p ELSE RootOf(pr, pr[p], fuel - 1)

DoAdd(s, x) ==
  IF Has(s, x) THEN s
  ELSE [elts |-> Append(s.elts, x), par |-> Append(s.par, Len(s.elts) + 1),
        siz |-> Append(s.siz, 1), nelts |-> s.nelts + 1, ncomps |-> s.ncomps + 1,
        part |-> s.part \cup {{x}}]

DoFind(s, x) ==      \* [s |-> state after, root |-> position]; only for x present
  LET r == FindH(Pos(s, x), s.par) IN [s |-> [s EXCEPT !.par = r[2]], root |-> r[1]]

DoUnion(s, x, y) ==
  LET s1 == DoAdd(DoAdd(s, x), y)
      f1 == DoFind(s1, x)
      f2 == DoFind(f1.s, y)
      s2 == f2.s
      xr == f1.root
      yr == f2.root
      bx == BlockOf(s2, x)
      by == BlockOf(s2, y)
      np == (s2.part \ {bx, by}) \cup {bx \cup by}
  IN IF xr = yr THEN s2
     ELSE IF s2.siz[xr] < s2.siz[yr]
          THEN [s2 EXCEPT !.par[xr] = yr, !.siz[yr] = s2.siz[yr] + s2.siz[xr],
                          !.ncomps = s2.ncomps - 1, !.part = np]
          ELSE [s2 EXCEPT !.par[yr] = xr, !.siz[xr] = s2.siz[xr] + s2.siz[yr],
                          !.ncomps = s2.ncomps - 1, !.part = np]

(* a query that runs find on every element in insertion order (component, roots, ...)   *)
RECURSIVE FindAll(_, _)
FindAll(s, i) == IF i > Len(s.elts) THEN s ELSE FindAll(DoFind(s, s.elts[i]).s, i + 1)

(* ------------------------------ invariants ------------------------------ *)
IsForest(s) == \A p \in 1..Len(s.par) : s.par[RootOf(s.par, p, Len(s.par))] = RootOf(s.par, p, Len(s.par))
ForestPartition(s) ==
  { { s.elts[p] : p \in { q \in 1..Len(s.par) : RootOf(s.par, q, Len(s.par)) = r } }
      : r \in { p \in 1..Len(s.par) : s.par[p] = p } }
IsPartition(s) == /\ UNION s.part = Added(s)
                  /\ \A a, b \in s.part : a # b => a \cap b = {}
                  /\ {} \notin s.part
Inv(s) == /\ Len(s.par) = Len(s.elts) /\ Len(s.siz) = Len(s.elts)
          /\ \A p \in 1..Len(s.par) : s.par[p] \in 1..Len(s.par)
          /\ IsForest(s)
          /\ IsPartition(s)
          /\ ForestPartition(s) = s.part                 \* the forest refines the abstract partition
          /\ s.nelts = Len(s.elts) /\ s.nelts = Cardinality(Added(s))
          /\ s.ncomps = Cardinality(s.part)
          /\ \A p \in 1..Len(s.par) : s.par[p] = p =>
                 s.siz[p] = Cardinality(BlockOf(s, s.elts[p]))   \* sizes correct at roots
=============================================================================
