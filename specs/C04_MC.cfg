CONSTANTS
  EmitOn = TRUE
  NIds = 11
SPECIFICATION Spec
INVARIANT Lossless
INVARIANT Emit
CHECK_DEADLOCK FALSE
