------------------------------ MODULE TraceKit ------------------------------
(* Common definitions of the trace validators.  A trace file is a JSON array of cases    *)
(*   [ {"id": .., "given": {..}, "events": [ {"op": .., ...}, .. ]}, .. ]                *)
(* read from the file named by the environment variable TRACE_FILE.  A validator walks   *)
(* case by case, event by event; a rejected event prints one MISMATCH record and the     *)
(* walk continues, so one rejection never hides the rest of a trace.                     *)
EXTENDS Naturals, Sequences, TLC, Json, IOUtils

Cases == JsonDeserialize(IOEnv.TRACE_FILE)
NCases == Len(Cases)

Mismatch(case, ev, op, clause, cls, detail) ==
  PrintT(ToJson([k |-> "MISMATCH", case |-> case, ev |-> ev, op |-> op, clause |-> clause,
                 cls |-> cls, detail |-> detail]))
Done(ncases, nevents, judged, skipped) ==
  PrintT(ToJson([k |-> "DONE", cases |-> ncases, events |-> nevents, judged |-> judged,
                 skipped |-> skipped]))

(* verdict records built by the Judge operators *)
Ok(next)                 == [ok |-> TRUE,  skip |-> FALSE, clause |-> "", cls |-> "", detail |-> "", next |-> next]
Skip(next)               == [ok |-> TRUE,  skip |-> TRUE,  clause |-> "", cls |-> "", detail |-> "", next |-> next]
Bad(clause, cls, detail, next) == [ok |-> FALSE, skip |-> FALSE, clause |-> clause, cls |-> cls, detail |-> detail, next |-> next]

(* first failing clause of a list of <<condition, clause name>> pairs, "" if none *)
RECURSIVE FirstFail(_, _)
FirstFail(cl, i) == IF i > Len(cl) THEN "" ELSE IF cl[i][1] THEN FirstFail(cl, i + 1) ELSE cl[i][2]
Check(clauses, cls, detail, next) ==
  LET f == FirstFail(clauses, 1) IN IF f = "" THEN Ok(next) ELSE Bad(f, cls, detail, next)

SeqToSet(q) == { q[i] : i \in 1..Len(q) }
=============================================================================
