CONSTANTS
  NV = 6
  MaxC = 4
  EmitOn = TRUE
SPECIFICATION Spec
INVARIANT Emit
CHECK_DEADLOCK FALSE
