------------------------------- MODULE C02_MC -------------------------------
(* Every raw input of the bounded family is one initial state: Build is well formed, building  *)
(* again changes nothing, with every combination of the completion switches.                   *)
EXTENDS C02_Build, Json
CONSTANTS EmitOn, Big
VARIABLES raw
EdgePool == IF Big THEN { <<0, 1>>, <<1, 0>>, <<2, 2>>, <<1, 7>>, <<2, 3>>, <<3, 1>> } ELSE { <<1, 0>>, <<2, 2>>, <<1, 7>>, <<2, 3>> }
FacePool == IF Big THEN { <<0, 1, 2>>, <<0, 2, 3>>, <<1, 0, 3>>, <<0, 1, 2, 3>>, <<4, 3, 2, 1, 0>> } ELSE { <<0, 1, 2>>, <<1, 0, 3>>, <<0, 1, 2, 3>> }
CellSets == { <<>>, << <<0, 1, 2, 3>> >>, << <<0, 1, 2, 3>>, <<1, 2, 3, 4>> >>, << <<0, 2, 1, 3>>, <<4, 1, 2, 3>> >>,
              << <<0, 1, 2, 3, 4, 5, 6, 7>> >> }
ESeqs == {<<>>} \cup { <<a>> : a \in EdgePool } \cup { <<a, b>> \in EdgePool \X EdgePool : Key2(a) # Key2(b) }
FSeqs == {<<>>} \cup { <<a>> : a \in FacePool } \cup { <<a, b>> \in FacePool \X FacePool : VSet(a) # VSet(b) }
Init == \E E \in ESeqs, F \in FSeqs, C \in CellSets, cE \in BOOLEAN, cF \in BOOLEAN, at \in (IF Big THEN {0, 1, 2} ELSE {0, 2}) :
          raw = [nv |-> IF C # <<>> /\ Len(C[1]) = 8 THEN 8 ELSE 5, E |-> E, F |-> F, C |-> C,
                 att |-> IF at = 0 \/ E = <<>> THEN {} ELSE IF at = 1 THEN {<<Len(E) - 1, 7>>}
                         ELSE { <<i - 1, 10 + i>> : i \in 1..Len(E) },
                 completeE |-> cE, completeF |-> cF]
Next == UNCHANGED raw
Spec == Init /\ [][Next]_raw
B == Build(raw)
BuildIsWellFormed == WellFormed(B)
BuildAgainChangesNothing ==         \* with the same switches, and with everything switched on
  /\ Rebuild(B, raw.completeE, raw.completeF) = B
  /\ (raw.completeE /\ raw.completeF) => Rebuild(B, TRUE, TRUE) = B
CornersMatch == Len(B.fc) = Len(Sides(B.F)) /\ (B.cf # <<>> => \A i \in 1..Len(B.cf) : B.cf[i][1] \in 0..(Len(B.F) - 1))
Emit == EmitOn => PrintT(ToJson([k |-> "R", raw |-> [raw EXCEPT !.att = SetToSeq(raw.att)]]))
=============================================================================
