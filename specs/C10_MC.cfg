CONSTANTS
  N = 4
  MaxW = 2
SPECIFICATION Spec
INVARIANT BfsCorrect
INVARIANT KruskalCorrect
CHECK_DEADLOCK FALSE
