SPECIFICATION Spec
INVARIANT Invariance
INVARIANT AngleSums
CHECK_DEADLOCK FALSE
