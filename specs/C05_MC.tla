------------------------------ MODULE C05_MC ------------------------------
(* Bounded model of the two storages AT THE GRAIN OF THE IMPLEMENTATION, refining the      *)
(* abstract total map of C05_Attributes:                                                  *)
(*   sparse:  sdata (partial map index -> value), sdef (the one default OBJECT)            *)
(*   dense :  ddata (array of nelem rows), nelem                                           *)
(* AsBuilt names deviations found in mouette; with AsBuilt = {} every invariant holds,     *)
(* with a deviation switched on TLC returns the shortest failing history.                  *)
EXTENDS C05_Attributes, Json
CONSTANTS AsBuilt, MaxSize, D, Configs, EmitOn
VARIABLES cfg, a, sdata, sdef, ddata, nelem, lastres, hist
vars == <<cfg, a, sdata, sdef, ddata, nelem, lastres, hist>>

(* concrete configurations: attribute type/arity and a pool of values to write *)
Pool(c) ==
  CASE c = "float2" -> [at |-> "float", k |-> 2, dflt |-> TypeDefault("float", 2), vals |-> {
          [vt |-> "float", va |-> 2, v |-> <<"1.5", "-2">>], [vt |-> "int", va |-> 2, v |-> <<"7", "8">>],
          [vt |-> "bool", va |-> 2, v |-> <<"1", "0">>],
          [vt |-> "str", va |-> 2, v |-> <<"s:x", "s:y">>], [vt |-> "float", va |-> 3, v |-> <<"1.5", "2.5", "3.5">>],
          [vt |-> "float", va |-> 0, v |-> <<"4.5">>], [vt |-> "complex", va |-> 2, v |-> <<"1+2j", "3j">>] }]
    [] c = "int1" -> [at |-> "int", k |-> 1, dflt |-> <<"5">>, vals |-> {
          [vt |-> "int", va |-> 0, v |-> <<"3">>], [vt |-> "bool", va |-> 0, v |-> <<"1">>],
          [vt |-> "float", va |-> 0, v |-> <<"2.5">>], [vt |-> "int", va |-> 2, v |-> <<"1", "2">>],
          [vt |-> "str", va |-> 0, v |-> <<"s:no">>] }]
    [] c = "str1" -> [at |-> "str", k |-> 1, dflt |-> TypeDefault("str", 1), vals |-> {
          [vt |-> "str", va |-> 0, v |-> <<"s:hello">>], [vt |-> "str", va |-> 0, v |-> <<"s:">>],
          [vt |-> "int", va |-> 0, v |-> <<"3">>], [vt |-> "bool", va |-> 0, v |-> <<"1">>] }]
    [] c = "bool1" -> [at |-> "bool", k |-> 1, dflt |-> TypeDefault("bool", 1), vals |-> {
          [vt |-> "bool", va |-> 0, v |-> <<"1">>], [vt |-> "int", va |-> 0, v |-> <<"1">>],
          [vt |-> "float", va |-> 0, v |-> <<"1">>] }]
    [] c = "complex3" -> [at |-> "complex", k |-> 3, dflt |-> TypeDefault("complex", 3), vals |-> {
          [vt |-> "complex", va |-> 3, v |-> <<"1+2j", "-1j", "0">>], [vt |-> "float", va |-> 3, v |-> <<"1.5", "2", "3">>],
          [vt |-> "complex", va |-> 2, v |-> <<"1+2j", "3j">>] }]
P == Pool(cfg)
Act(op, f) == [op |-> op] @@ f

ReadS(i) == IF i \in DOMAIN sdata THEN sdata[i] ELSE sdef
ReadD(i) == ddata[i + 1]

Init == /\ cfg \in Configs /\ lastres = "ok"
        /\ \E n \in 0..1 : /\ a = New(n, Pool(cfg).at, Pool(cfg).k, Pool(cfg).dflt)
                           /\ ddata = Fill(n, Pool(cfg).dflt) /\ nelem = n
                           /\ hist = << [op |-> "init", n |-> n] >>
        /\ sdata = <<>> /\ sdef = Pool(cfg).dflt

Set(i, val) ==
  LET verdict == SetVerdict(P.at, P.k, val.vt, val.va) IN
  /\ InRange(a, i)
  /\ lastres' = verdict
  /\ IF verdict = "ok"
     THEN /\ a' = DoSet(a, i, val.v)
          /\ sdata' = (i :> val.v) @@ sdata       \* the code stores a fresh Vec / the scalar
          /\ ddata' = [ddata EXCEPT ![i + 1] = val.v]
     ELSE UNCHANGED <<a, sdata, ddata>>
  /\ UNCHANGED <<cfg, sdef, nelem>>
  /\ hist' = Append(hist, Act("set", [i |-> i, vt |-> val.vt, va |-> val.va, v |-> val.v]))

(* dense accesses outside the container, the size included *)
ProbeVerdict(i) ==
  IF "dense_bound_gt" \in AsBuilt
  THEN (IF i < 0 \/ i > nelem THEN "oob" ELSE IF i = nelem THEN "IndexError" ELSE "ok")
  ELSE (IF i < 0 \/ i >= nelem THEN "oob" ELSE "ok")
Probe(i) == /\ lastres' = ProbeVerdict(i)
            /\ UNCHANGED <<cfg, a, sdata, sdef, ddata, nelem>>
            /\ hist' = Append(hist, Act("probe", [i |-> i]))

Grow(op, n) ==
  /\ a.size + n <= MaxSize
  /\ IF op = "extend_container" /\ "container_iadd_n_elem" \in AsBuilt
     THEN /\ lastres' = "AttributeError"        \* other.n_elem does not exist: data grown, attributes not
          /\ a' = DoGrow(a, n) /\ UNCHANGED <<ddata, nelem>>
     ELSE /\ lastres' = "ok" /\ a' = DoGrow(a, n)
          /\ ddata' = ddata \o Fill(n, P.dflt) /\ nelem' = nelem + n
  /\ UNCHANGED <<cfg, sdata, sdef>>
  /\ hist' = Append(hist, Act(op, [n |-> n]))

Clear == /\ a' = DoClear(a) /\ sdata' = <<>> /\ ddata' = Fill(nelem, P.dflt) /\ lastres' = "ok"
         /\ UNCHANGED <<cfg, sdef, nelem>> /\ hist' = Append(hist, Act("clear", <<>>))
AsArray == /\ UNCHANGED <<cfg, a, sdata, sdef, ddata, nelem>> /\ lastres' = "ok"
           /\ hist' = Append(hist, Act("as_array", <<>>))
Recreate == /\ a' = New(a.size, P.at, P.k, P.dflt) /\ sdata' = <<>> /\ sdef' = P.dflt
            /\ ddata' = Fill(a.size, P.dflt) /\ nelem' = a.size /\ lastres' = "ok"
            /\ UNCHANGED cfg /\ hist' = Append(hist, Act("recreate", <<>>))

(* v = attr[i]; v[0] = x   on both storages (arity >= 2 only: scalars are immutable) *)
InPlace(i, x) ==
  /\ P.k > 1 /\ InRange(a, i) /\ nelem = a.size
  /\ LET stored == i \in DOMAIN sdata
         shared == "shared_default" \in AsBuilt
     IN /\ sdata' = IF stored THEN [sdata EXCEPT ![i] = Poke(sdata[i], x)] ELSE sdata
        /\ sdef'  = IF ~stored /\ shared THEN Poke(sdef, x) ELSE sdef   \* the default OBJECT is handed out
        /\ ddata' = [ddata EXCEPT ![i + 1] = Poke(ddata[i + 1], x)]       \* numpy row view
        /\ a' = DoInPlace(a, i, x, stored \/ shared, TRUE)
  /\ lastres' = "ok" /\ UNCHANGED <<cfg, nelem>>
  /\ hist' = Append(hist, Act("inplace", [i |-> i, x |-> x]))

Next == /\ Len(hist) <= D
        /\ \/ \E i \in 0..(MaxSize - 1), val \in P.vals : Set(i, val)
           \/ \E i \in -1..(MaxSize + 1) : i <= a.size + 1 /\ Probe(i)
           \/ \E n \in 1..2, op \in {"extend_list", "extend_container"} : Grow(op, n)
           \/ Grow("append", 1) \/ Clear \/ AsArray \/ Recreate
           \/ \E i \in 0..(MaxSize - 1) : InPlace(i, IF P.at = "complex" THEN "9j" ELSE "9.5")
Spec == Init /\ [][Next]_vars

(* ---- the properties of the statement, on the implementation-shaped state ---- *)
TotalMapS == \A i \in 0..(a.size - 1) : ReadS(i) = a.vs[i + 1]          \* last write or default
TotalMapD == nelem = a.size => \A i \in 0..(a.size - 1) : ReadD(i) = a.vd[i + 1]
Aligned   == nelem = a.size /\ Len(ddata) = nelem                       \* growth keeps attributes aligned
SparseDenseAgree == Agree(a)
DenseOutOfBounds == lastres # "IndexError"                              \* index = size is reported as out of bounds
GrowthAccepted   == lastres # "AttributeError"
NoCrossAliasing ==       \* an in-place update of a read value changes at most that entry
  [][ hist'[Len(hist')].op = "inplace" =>
        \A j \in 0..(a.size - 1) : j # hist'[Len(hist')].i =>
            (IF j \in DOMAIN sdata' THEN sdata'[j] ELSE sdef') = ReadS(j) /\ ddata'[j + 1] = ReadD(j) ]_vars

View == <<cfg, a, sdata, sdef, ddata, nelem, lastres>>
Emit == EmitOn => PrintT(ToJson([k |-> "H", cfg |-> cfg, at |-> P.at, ar |-> P.k, dflt |-> P.dflt, h |-> hist]))
=============================================================================
