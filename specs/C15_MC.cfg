CONSTANTS
  NV = 5
  MaxF = 4
  MaxAr = 4
  EmitOn = FALSE
  Sorted = TRUE
SPECIFICATION Spec
INVARIANT WalkIsTheLoop
CHECK_DEADLOCK FALSE
