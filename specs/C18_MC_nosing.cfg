SPECIFICATION Spec
CONSTANTS
  MeshId = "pinwheel"
  Orders = {1, 2, 3, 4, 5, 6}
  TieAll = TRUE
  Sample = 97
INVARIANT NoSingularity
CHECK_DEADLOCK FALSE
