SPECIFICATION Spec
CONSTANTS
  MeshId = "grid2"
  Orders = {1, 3, 5}
  Cotan = FALSE
  RotFaces = {3, 4, 5, 6, 8}
INVARIANT HermitianThm
INVARIANT GaugeThm
INVARIANT InvarianceThm
CHECK_DEADLOCK FALSE
