------------------------------ MODULE C04_Trace ------------------------------
(* given = [m (the source mesh as built: V ids, E all edges, H hard/declared edges as pairs, F, C,     *)
(*            att: sequence of [set, name, type, dim, vals]), r32 (float64 id -> float32 id), family]      *)
(* events:  "written" f lines        the file mouette wrote, lexed into tokens, read by the reference codec  *)
(*          "loaded"  f how obs      what mouette loaded from a file written by itself ("self") or by the     *)
(*                                   reference writer ("reference"): containers of the finished mesh            *)
(*          "stl_written" tris / "stl_loaded" tris : triangles as three points of float32 ids                   *)
EXTENDS TraceKit, C04_Codec, C02_Build
VARIABLES ci, ei, st, nj, ns, ne
InitState(c) == [m |-> c.given.m, fam |-> c.given.family, r32 |-> c.given.r32, cfgE |-> c.given.cfgE, objE |-> c.given.objE]
PairSetOf(q) == { Key2(<<q[i][1], q[i][2]>>) : i \in 1..Len(q) }
ByArity(q, k) == SelectSeq(q, LAMBDA x : Len(x) = k)
SameElems(f, got, want) ==       \* medit groups elements by kind: compare kind by kind; elsewhere the order is the file order
  IF f = "mesh" THEN \A k \in 3..8 : ByArity(got, k) = ByArity(want, k) ELSE got = want
(* the edges a format carries for this mesh: every edge (geogram, polylines), or only the declared ones (obj, medit on surfaces/volumes) *)
FileEdges0(f, m) == IF f \notin {"obj", "mesh", "geogram_ascii"} THEN {}           \* off, tet, xyz have no edge vocabulary
                   ELSE IF f = "geogram_ascii" \/ (m.F = <<>> /\ m.C = <<>>) THEN PairSetOf(m.E)
                   ELSE PairSetOf(m.H)
(* two configuration switches change the vocabulary: with edge completion off every edge of the mesh is a declared one (and is written); *)
(* with export_edges_in_obj off an .obj file carries no edge                                                                              *)
FileEdgesS(s, f, m) == IF f = "obj" /\ s.objE = 0 THEN {}
                       ELSE IF s.cfgE = 0 /\ f \in {"obj", "mesh"} THEN PairSetOf(m.E)
                       ELSE FileEdges0(f, m)
HasNonVocab(f, m) == \/ (f = "mesh" /\ ((\E k \in 1..Len(m.F) : Len(m.F[k]) > 4) \/ (\E k \in 1..Len(m.C) : Len(m.C[k]) \notin {4, 8})))
TypeClass(t) == IF t \in {"\"int\"", "\"index_t\"", "\"signed_index_t\"", "\"unsigned int\""} THEN "int"
                ELSE IF t \in {"\"double\"", "\"float\""} THEN "float" ELSE t
WantAtts(m) == { [set |-> m.att[i].set, name |-> m.att[i].name, type |-> m.att[i].type, dim |-> m.att[i].dim, vals |-> m.att[i].vals] : i \in 1..Len(m.att) }
Cls(s, e) == s.fam \o "/" \o e.f \o (IF "how" \in DOMAIN e THEN "/" \o e.how ELSE "")

Judge(c, s, e) ==
  LET m == s.m IN
  CASE e.op = "written" ->
         IF e.exc # "" THEN Bad("save_succeeds", Cls(s, e), e.exc, s)
         ELSE LET r == IF e.f = "geogram_ascii" THEN ReadGeogram(e.lines) ELSE Read(e.f, e.lines) @@ [att |-> {}]
                  p == Project(e.f, m)
              IN Check(<< << r.V = p.V, "coordinates_bit_exact_for_an_independent_reader" >>,
                          << SameElems(e.f, r.F, p.F), "faces_mean_the_same_to_an_independent_reader" >>,
                          << SameElems(e.f, r.C, p.C), "cells_mean_the_same_to_an_independent_reader" >>,
                          << PairSetOf(r.E) = FileEdgesS(s, e.f, m) /\ Len(r.E) = Cardinality(FileEdgesS(s, e.f, m)), "edges_mean_the_same_to_an_independent_reader" >>,
                          << e.f # "geogram_ascii" \/ \A a \in WantAtts(m) :
                                \E b \in r.att : b.set = a.set /\ b.name = a.name /\ TypeClass(b.type) = TypeClass(a.type) /\ b.dim = a.dim
                                                 /\ [j \in 1..Len(b.vals) |-> b.vals[j].n] = a.vals, "attributes_mean_the_same_to_an_independent_reader" >> >>,
                       Cls(s, e), "", s)
    [] e.op = "loaded" ->
         IF e.exc # "" THEN Bad("load_succeeds", Cls(s, e), e.exc, s)
         ELSE LET p == Project(e.f, m)
                  o == e.obs
                  raw == [nv |-> Len(p.V), E |-> SetToSeq(FileEdgesS(s, e.f, m)), F |-> p.F, C |-> p.C, att |-> {}, completeE |-> (s.cfgE = 1), completeF |-> TRUE]
                  want == Build(raw)
              IN Check(<< << o.cls = ClassOfMesh([p EXCEPT !.E = raw.E]), "loaded_object_has_the_class_its_content_implies" >>,
                          << o.V = p.V, "coordinates_come_back_bit_exact" >>,
                          << Len(o.F) = Len(want.F) /\ SameElems(e.f, SubSeq(o.F, 1, Len(p.F)), p.F)
                             /\ { VSet(o.F[k]) : k \in 1..Len(o.F) } = { VSet(want.F[k]) : k \in 1..Len(want.F) }, "faces_come_back_with_the_same_vertex_order" >>,
                          << SameElems(e.f, o.C, p.C), "cells_come_back_with_the_same_vertex_order" >>,
                          << PairSetOf(o.E) = PairSetOf(want.E) /\ Len(o.E) = Len(want.E), "edges_come_back" >>,
                          << { Key2(<<o.E[h + 1][1], o.E[h + 1][2]>>) : h \in SeqToSet(o.hard) } = FileEdgesS(s, e.f, m) \cap PairSetOf(m.H)
                             \/ (p.F = <<>> /\ p.C = <<>>) \/ s.cfgE = 0, "declared_edges_stay_the_hard_edges" >>,     \* hard flags only exist next to faces
                          << e.f # "geogram_ascii" \/ \A a \in WantAtts(m) :
                                \E i \in 1..Len(o.att) : o.att[i].set = a.set /\ o.att[i].name = a.name /\ TypeClass(o.att[i].type) = TypeClass(a.type)
                                                          /\ o.att[i].dim = a.dim /\ o.att[i].vals = a.vals, "attributes_come_back_with_name_type_arity_values" >> >>,
                       Cls(s, e), "", s)
    [] e.op \in {"stl_written", "stl_loaded"} ->
         IF e.exc # "" THEN Bad(IF e.op = "stl_written" THEN "save_succeeds" ELSE "load_succeeds", s.fam \o "/stl", e.exc, s)
         ELSE LET P32(v) == <<s.r32[m.V[v + 1][1]], s.r32[m.V[v + 1][2]], s.r32[m.V[v + 1][3]]>>
                  tris == FlattenSeq([k \in 1..Len(m.F) |->
                             IF Len(m.F[k]) = 3 THEN << <<P32(m.F[k][1]), P32(m.F[k][2]), P32(m.F[k][3])>> >>
                             ELSE << <<P32(m.F[k][1]), P32(m.F[k][2]), P32(m.F[k][3])>>, <<P32(m.F[k][3]), P32(m.F[k][4]), P32(m.F[k][1])>> >>])
              IN Check(<< << e.tris = tris, IF e.op = "stl_written" THEN "triangles_mean_the_same_to_an_independent_reader" ELSE "triangles_come_back_as_float32" >>,
                          << e.op = "stl_written" \/ e.cls = "SurfaceMesh", "loaded_object_has_the_class_its_content_implies" >> >>, s.fam \o "/stl", "", s)
    [] OTHER -> Bad("unknown_operation", e.op, "", s)
W0 == INSTANCE Walker
Spec == W0!Spec
=============================================================================
