------------------------------ MODULE TetEnum ------------------------------
(* Every conforming tetrahedral complex on at most NV vertices with at most MaxC cells in     *)
(* which a triangle belongs to at most two cells (state = set of 4-subsets).                    *)
EXTENDS TetCore, Json
CONSTANTS NV, MaxC, EmitOn
VARIABLES cells
Verts == 0..(NV - 1)
Tets == { s \in SUBSET Verts : Cardinality(s) = 4 }
Tris(s) == { t \in SUBSET s : Cardinality(t) = 3 }
Uses(t) == Cardinality({ c \in cells : t \subseteq c })
Init == cells = {}
Next == /\ Cardinality(cells) < MaxC
        /\ \E s \in Tets \ cells : (\A t \in Tris(s) : Uses(t) <= 1) /\ cells' = cells \cup {s}
Spec == Init /\ [][Next]_cells
VUsed == UNION cells
Emit == (EmitOn /\ cells # {} /\ VUsed = 0..(Cardinality(VUsed) - 1))
          => PrintT(ToJson([k |-> "T", nv |-> Cardinality(VUsed), C |-> SetToSeq({ SetToSeq(c) : c \in cells })]))
=============================================================================
