------------------------------ MODULE C04_Codec ------------------------------
(* An independent reference codec for the mesh file formats, written from the format          *)
(* descriptions (not from mouette's code).  A file is a sequence of LINES, a line a sequence of    *)
(* TOKENS  [k, s, n]:  k = "w" word (s), "i" integer literal (n), "f" float literal (n = the id of  *)
(* the float64 bit pattern it denotes; coordinates are opaque ids: "bit-exact" is id equality).      *)
(* Abstract mesh  m = [V (sequence of <<id,id,id>>), E, H (indices of hard = declared edges),         *)
(*                     F, C, att (attributes, geogram only)]                                          *)
EXTENDS Naturals, Integers, Sequences, FiniteSets, TLC, SequencesExt

Wd(s) == [k |-> "w", s |-> s, n |-> 0]
In(n) == [k |-> "i", s |-> "", n |-> n]
Fl(id) == [k |-> "f", s |-> "", n |-> id]
IsW(t, s) == t.k = "w" /\ t.s = s
Ints(line, from, to) == [j \in 1..(to - from + 1) |-> line[from + j - 1].n]
Shift1(q, d) == [j \in 1..Len(q) |-> q[j] + d]
SeqSetC(q) == { q[i] : i \in 1..Len(q) }
EmptyMesh == [V |-> <<>>, E |-> <<>>, F |-> <<>>, C |-> <<>>]
NumTok(t) == t.k \in {"i", "f"}

(* ------------------------------------ OBJ ------------------------------------ *)
(* v x y z | l a b (1-based) | f a b c ... (1-based) *)
RECURSIVE ReadObj(_, _)
ReadObj(lines, acc) ==
  IF lines = <<>> THEN acc
  ELSE LET l == lines[1] IN
       ReadObj(Tail(lines),
         IF l = <<>> THEN acc
         ELSE IF IsW(l[1], "v") THEN [acc EXCEPT !.V = Append(@, <<l[2].n, l[3].n, l[4].n>>)]
         ELSE IF IsW(l[1], "l") THEN [acc EXCEPT !.E = Append(@, <<l[2].n - 1, l[3].n - 1>>)]
         ELSE IF IsW(l[1], "f") THEN [acc EXCEPT !.F = Append(@, Shift1(Ints(l, 2, Len(l)), -1))]
         ELSE acc)
WriteObj(m) == [i \in 1..Len(m.V) |-> <<Wd("v"), Fl(m.V[i][1]), Fl(m.V[i][2]), Fl(m.V[i][3])>>]
            \o [i \in 1..Len(m.E) |-> <<Wd("l"), In(m.E[i][1] + 1), In(m.E[i][2] + 1)>>]
            \o [i \in 1..Len(m.F) |-> <<Wd("f")>> \o [j \in 1..Len(m.F[i]) |-> In(m.F[i][j] + 1)]]

(* ------------------------------------ OFF ------------------------------------ *)
(* OFF | nv nf ne | nv vertex lines | nf lines: n i1 .. in (0-based polygons) *)
ReadOff(lines) ==
  LET nv == lines[2][1].n
      nf == lines[2][2].n
  IN [V |-> [i \in 1..nv |-> <<lines[2 + i][1].n, lines[2 + i][2].n, lines[2 + i][3].n>>],
      E |-> <<>>, C |-> <<>>,
      F |-> [i \in 1..nf |-> Ints(lines[2 + nv + i], 2, 1 + lines[2 + nv + i][1].n)]]
WriteOff(m) == << <<Wd("OFF")>>, <<In(Len(m.V)), In(Len(m.F)), In(0)>> >>
            \o [i \in 1..Len(m.V) |-> <<Fl(m.V[i][1]), Fl(m.V[i][2]), Fl(m.V[i][3])>>]
            \o [i \in 1..Len(m.F) |-> <<In(Len(m.F[i]))>> \o [j \in 1..Len(m.F[i]) |-> In(m.F[i][j])]]

(* ------------------------------------ TET ------------------------------------ *)
(* "n vertices" | "m tets" | n vertex lines | m lines: 4 a b c d (0-based) *)
ReadTet(lines) ==
  LET nv == lines[1][1].n
      nc == lines[2][1].n
  IN [V |-> [i \in 1..nv |-> <<lines[2 + i][1].n, lines[2 + i][2].n, lines[2 + i][3].n>>], E |-> <<>>, F |-> <<>>,
      C |-> [i \in 1..nc |-> Ints(lines[2 + nv + i], 2, 1 + lines[2 + nv + i][1].n)]]
WriteTet(m) == << <<In(Len(m.V)), Wd("vertices")>>, <<In(Len(m.C)), Wd("tets")>> >>
            \o [i \in 1..Len(m.V) |-> <<Fl(m.V[i][1]), Fl(m.V[i][2]), Fl(m.V[i][3])>>]
            \o [i \in 1..Len(m.C) |-> <<In(Len(m.C[i]))>> \o [j \in 1..Len(m.C[i]) |-> In(m.C[i][j])]]

(* ------------------------------------ XYZ ------------------------------------ *)
ReadXyz(lines) == [V |-> [i \in 1..Len(lines) |-> <<lines[i][1].n, lines[i][2].n, lines[i][3].n>>], E |-> <<>>, F |-> <<>>, C |-> <<>>]
WriteXyz(m) == [i \in 1..Len(m.V) |-> <<Fl(m.V[i][1]), Fl(m.V[i][2]), Fl(m.V[i][3])>>]

(* ------------------------------------ MEDIT (.mesh) ------------------------------------ *)
(* keyword line, count line, then count lines "i1 .. ik ref" (1-based); End *)
MeditArity(w) == CASE w = "Vertices" -> 3 [] w = "Edges" -> 2 [] w = "Triangles" -> 3 [] w = "Quadrilaterals" -> 4
                   [] w = "Tetrahedra" -> 4 [] w = "Hexahedra" -> 8 [] OTHER -> 0
RECURSIVE ReadMedit(_, _, _)
ReadMedit(lines, p, acc) ==
  IF p > Len(lines) THEN acc
  ELSE LET l == lines[p] IN
       IF l = <<>> \/ l[1].k # "w" \/ MeditArity(l[1].s) = 0 \/ Len(l) > 1 THEN ReadMedit(lines, p + 1, acc)
       ELSE LET w == l[1].s
                k == MeditArity(w)
                n == lines[p + 1][1].n
                items == [i \in 1..n |-> Ints(lines[p + 1 + i], 1, k)]
                acc2 == CASE w = "Vertices" -> [acc EXCEPT !.V = @ \o items]
                          [] w = "Edges" -> [acc EXCEPT !.E = @ \o [i \in 1..n |-> Shift1(items[i], -1)]]
                          [] w \in {"Triangles", "Quadrilaterals"} -> [acc EXCEPT !.F = @ \o [i \in 1..n |-> Shift1(items[i], -1)]]
                          [] OTHER -> [acc EXCEPT !.C = @ \o [i \in 1..n |-> Shift1(items[i], -1)]]
            IN ReadMedit(lines, p + 2 + n, acc2)
MeditBlock(word, items, shift) ==
  IF items = <<>> THEN <<>>
  ELSE << <<Wd(word)>>, <<In(Len(items))>> >> \o [i \in 1..Len(items) |-> [j \in 1..Len(items[i]) |-> In(items[i][j] + shift)] \o <<In(1)>>]
WriteMedit(m) ==
  << <<Wd("MeshVersionFormatted"), In(1)>>, <<Wd("Dimension"), In(3)>>, <<Wd("Vertices")>>, <<In(Len(m.V))>> >>
  \o [i \in 1..Len(m.V) |-> <<Fl(m.V[i][1]), Fl(m.V[i][2]), Fl(m.V[i][3]), In(1)>>]
  \o MeditBlock("Edges", m.E, 1)
  \o MeditBlock("Triangles", SelectSeq(m.F, LAMBDA f : Len(f) = 3), 1)
  \o MeditBlock("Quadrilaterals", SelectSeq(m.F, LAMBDA f : Len(f) = 4), 1)
  \o MeditBlock("Tetrahedra", SelectSeq(m.C, LAMBDA c : Len(c) = 4), 1)
  \o MeditBlock("Hexahedra", SelectSeq(m.C, LAMBDA c : Len(c) = 8), 1)
  \o << <<Wd("End")>> >>

(* ------------------------------------ GEOGRAM ASCII ------------------------------------ *)
(* one token per line.  [HEAD] "GEOGRAM" "1.0" | [ATTS] "<set>" count | [ATTR] "<set>" "<name>" "<type>" bytes dim values... *)
IsHeader(l) == l # <<>> /\ l[1].k = "w" /\ l[1].s \in {"[HEAD]", "[ATTS]", "[ATTR]"}
RECURSIVE ChunkEnd(_, _)
ChunkEnd(lines, p) == IF p > Len(lines) \/ IsHeader(lines[p]) THEN p ELSE ChunkEnd(lines, p + 1)
RECURSIVE Chunks(_, _)
Chunks(lines, p) == IF p > Len(lines) THEN <<>>
                    ELSE LET e == ChunkEnd(lines, p + 1) IN << [l \in 1..(e - p) |-> lines[p + l - 1][1]] >> \o Chunks(lines, e)
Attr(chs, set, name) == LET c == { k \in 1..Len(chs) : chs[k][1].s = "[ATTR]" /\ chs[k][2].s = set /\ chs[k][3].s = name }
                        IN IF c = {} THEN <<>> ELSE LET ch == chs[CHOOSE k \in c : TRUE] IN [j \in 1..(Len(ch) - 6) |-> ch[6 + j].n]
Count(chs, set) == LET c == { k \in 1..Len(chs) : chs[k][1].s = "[ATTS]" /\ chs[k][2].s = set }
                   IN IF c = {} THEN 0 ELSE chs[CHOOSE k \in c : TRUE][3].n
(* elements from a corner list and an optional pointer list (absent: all elements have `dflt` corners) *)
Elements(corners, ptr, n, dflt) ==
  [i \in 1..n |-> LET a == IF ptr = <<>> THEN (i - 1) * dflt ELSE ptr[i]
                      b == IF ptr = <<>> THEN i * dflt ELSE IF i < n THEN ptr[i + 1] ELSE Len(corners)
                  IN [j \in 1..(b - a) |-> corners[a + j]]]
UserAttrs(chs) ==      \* set of [set, name, type, dim, vals] for every attribute that is not part of the combinatorics
  { [set |-> chs[k][2].s, name |-> chs[k][3].s, type |-> chs[k][4].s, dim |-> chs[k][6].n, vals |-> [j \in 1..(Len(chs[k]) - 6) |-> chs[k][6 + j]]]
      : k \in { j \in 1..Len(chs) : chs[j][1].s = "[ATTR]" /\ chs[j][3].s \notin
          {"\"point\"", "\"GEO::Mesh::edges::edge_vertex\"", "\"GEO::Mesh::facet_corners::corner_vertex\"", "\"GEO::Mesh::facets::facet_ptr\"",
           "\"GEO::Mesh::cell_corners::corner_vertex\"", "\"GEO::Mesh::cells::cell_ptr\"", "\"GEO::Mesh::facet_corners::corner_adjacent_facet\"",
           "\"GEO::Mesh::cell_facets::adjacent_cell\"", "\"GEO::Mesh::cell_faces::adjacent_cell\"", "\"GEO::Mesh::cells::cell_type\""} } }
ReadGeogram(lines) ==
  LET chs == Chunks(lines, 1)
      pts == Attr(chs, "\"GEO::Mesh::vertices\"", "\"point\"")
      ev == Attr(chs, "\"GEO::Mesh::edges\"", "\"GEO::Mesh::edges::edge_vertex\"")
      fc == Attr(chs, "\"GEO::Mesh::facet_corners\"", "\"GEO::Mesh::facet_corners::corner_vertex\"")
      fp == Attr(chs, "\"GEO::Mesh::facets\"", "\"GEO::Mesh::facets::facet_ptr\"")
      cc == Attr(chs, "\"GEO::Mesh::cell_corners\"", "\"GEO::Mesh::cell_corners::corner_vertex\"")
      cp == Attr(chs, "\"GEO::Mesh::cells\"", "\"GEO::Mesh::cells::cell_ptr\"")
  IN [V |-> [i \in 1..(Len(pts) \div 3) |-> <<pts[3 * i - 2], pts[3 * i - 1], pts[3 * i]>>],
      E |-> [i \in 1..(Len(ev) \div 2) |-> <<ev[2 * i - 1], ev[2 * i]>>],
      F |-> Elements(fc, fp, Count(chs, "\"GEO::Mesh::facets\""), 3),
      C |-> Elements(cc, cp, Count(chs, "\"GEO::Mesh::cells\""), 4),
      att |-> UserAttrs(chs)]
One(t) == <<t>>
GAttr(set, name, type, bytes, dim, vals) == << One(Wd("[ATTR]")), One(Wd(set)), One(Wd(name)), One(Wd(type)), One(In(bytes)), One(In(dim)) >> \o [i \in 1..Len(vals) |-> One(vals[i])]
RECURSIVE Ptrs(_, _)
Ptrs(items, acc) == IF items = <<>> THEN <<>> ELSE <<In(acc)>> \o Ptrs(Tail(items), acc + Len(items[1]))
Flat(items) == FlattenSeq(items)
WriteGeogram(m) ==
  << One(Wd("[HEAD]")), One(Wd("\"GEOGRAM\"")), One(Wd("\"1.0\"")),
     One(Wd("[ATTS]")), One(Wd("\"GEO::Mesh::vertices\"")), One(In(Len(m.V))) >>
  \o GAttr("\"GEO::Mesh::vertices\"", "\"point\"", "\"double\"", 8, 3, [i \in 1..(3 * Len(m.V)) |-> Fl(m.V[((i - 1) \div 3) + 1][((i - 1) % 3) + 1])])
  \o (IF m.E = <<>> THEN <<>> ELSE
        << One(Wd("[ATTS]")), One(Wd("\"GEO::Mesh::edges\"")), One(In(Len(m.E))) >>
        \o GAttr("\"GEO::Mesh::edges\"", "\"GEO::Mesh::edges::edge_vertex\"", "\"index_t\"", 4, 2, [i \in 1..(2 * Len(m.E)) |-> In(m.E[((i - 1) \div 2) + 1][((i - 1) % 2) + 1])]))
  \o (IF m.F = <<>> THEN <<>> ELSE
        << One(Wd("[ATTS]")), One(Wd("\"GEO::Mesh::facets\"")), One(In(Len(m.F))) >>
        \o (IF \A k \in 1..Len(m.F) : Len(m.F[k]) = 3 THEN <<>>
            ELSE GAttr("\"GEO::Mesh::facets\"", "\"GEO::Mesh::facets::facet_ptr\"", "\"index_t\"", 4, 1, Ptrs(m.F, 0)))
        \o << One(Wd("[ATTS]")), One(Wd("\"GEO::Mesh::facet_corners\"")), One(In(Len(Flat(m.F)))) >>
        \o GAttr("\"GEO::Mesh::facet_corners\"", "\"GEO::Mesh::facet_corners::corner_vertex\"", "\"index_t\"", 4, 1, [i \in 1..Len(Flat(m.F)) |-> In(Flat(m.F)[i])]))
  \o (IF m.C = <<>> THEN <<>> ELSE
        << One(Wd("[ATTS]")), One(Wd("\"GEO::Mesh::cells\"")), One(In(Len(m.C))) >>
        \o (IF \A k \in 1..Len(m.C) : Len(m.C[k]) = 4 THEN <<>>
            ELSE GAttr("\"GEO::Mesh::cells\"", "\"GEO::Mesh::cells::cell_ptr\"", "\"index_t\"", 4, 1, Ptrs(m.C, 0)))
        \o << One(Wd("[ATTS]")), One(Wd("\"GEO::Mesh::cell_corners\"")), One(In(Len(Flat(m.C)))) >>
        \o GAttr("\"GEO::Mesh::cell_corners\"", "\"GEO::Mesh::cell_corners::corner_vertex\"", "\"index_t\"", 4, 1, [i \in 1..Len(Flat(m.C)) |-> In(Flat(m.C)[i])]))

(* ------------------------------------ vocabularies ------------------------------------ *)
Formats == {"obj", "mesh", "geogram_ascii", "off", "tet", "xyz"}
Read(f, lines) == CASE f = "obj" -> ReadObj(lines, EmptyMesh) [] f = "off" -> ReadOff(lines) [] f = "tet" -> ReadTet(lines)
                    [] f = "xyz" -> ReadXyz(lines) [] f = "mesh" -> ReadMedit(lines, 1, EmptyMesh)
                    [] f = "geogram_ascii" -> [x \in {"V", "E", "F", "C"} |-> ReadGeogram(lines)[x]]
Write(f, m) == CASE f = "obj" -> WriteObj(m) [] f = "off" -> WriteOff(m) [] f = "tet" -> WriteTet(m) [] f = "xyz" -> WriteXyz(m)
                 [] f = "mesh" -> WriteMedit(m) [] f = "geogram_ascii" -> WriteGeogram(m)
(* what a format can express of a mesh (element kinds it cannot express are absent) *)
Project(f, m) ==
  CASE f = "obj"  -> [V |-> m.V, E |-> m.E, F |-> m.F, C |-> <<>>]
    [] f = "off"  -> [V |-> m.V, E |-> <<>>, F |-> m.F, C |-> <<>>]
    [] f = "tet"  -> [V |-> m.V, E |-> <<>>, F |-> <<>>, C |-> m.C]
    [] f = "xyz"  -> [V |-> m.V, E |-> <<>>, F |-> <<>>, C |-> <<>>]
    [] f = "mesh" -> [V |-> m.V, E |-> m.E, F |-> SelectSeq(m.F, LAMBDA x : Len(x) = 3) \o SelectSeq(m.F, LAMBDA x : Len(x) = 4),
                      C |-> SelectSeq(m.C, LAMBDA x : Len(x) = 4) \o SelectSeq(m.C, LAMBDA x : Len(x) = 8)]
    [] f = "geogram_ascii" -> [V |-> m.V, E |-> m.E, F |-> m.F, C |-> m.C]
ClassOfMesh(p) == IF p.C # <<>> THEN "VolumeMesh" ELSE IF p.F # <<>> THEN "SurfaceMesh" ELSE IF p.E # <<>> THEN "PolyLine" ELSE "PointCloud"
=============================================================================
