CONSTANTS
  AsBuilt = {"seterr_not_restored"}
  D = 5
  EmitOn = FALSE
SPECIFICATION Spec
PROPERTY NoSideEffects
CONSTRAINT Emit
VIEW View
CHECK_DEADLOCK FALSE
