CONSTANTS
  AsBuilt = {}
  D = 5
  EmitOn = TRUE
SPECIFICATION Spec
PROPERTY NoSideEffects
CONSTRAINT Emit
VIEW View
CHECK_DEADLOCK FALSE
