CONSTANTS
  N = 4
  MaxW = 1
SPECIFICATION Spec
INVARIANT Correct
PROPERTY Terminates
CHECK_DEADLOCK FALSE
