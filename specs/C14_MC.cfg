CONSTANTS
  Lo = 3
  Hi = 5
SPECIFICATION Spec
INVARIANT TableHolds
CHECK_DEADLOCK FALSE
