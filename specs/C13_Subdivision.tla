--------------------------- MODULE C13_Subdivision ---------------------------
(* What each subdivision operation must do to (V, F): V a sequence of exact rational        *)
(* points, F a face list.  The clauses are relational (they do not fix which diagonal or     *)
(* which numbering the library uses): counts, validity, Euler characteristic, border loops,   *)
(* components, total (vector) area, old vertices in place, new vertices at the centres.       *)
(*                                                                                            *)
(* Area: Sum_f 1/2 Sum_i p_i x p_(i+1) is the exact, embedding-independent area functional -   *)
(* it is unchanged by every triangulation / fan / midpoint refinement of a piecewise linear     *)
(* surface, and on a planar consistently oriented mesh it IS the total area.                    *)
EXTENDS MeshCore, Rat

Zero3 == <<R(0), R(0), R(0)>>
RECURSIVE VSum(_)
VSum(q) == IF q = <<>> THEN Zero3 ELSE VAdd(q[1], VSum(Tail(q)))
FaceVecArea(V, f) == VSum([i \in 1..Len(f) |-> VCross(V[f[i] + 1], V[f[(i % Len(f)) + 1] + 1])])
VectorArea2(V, F) == VSum([k \in 1..Len(F) |-> FaceVecArea(V, F[k])])        \* twice the vector area
Bary(V, ids) == VMulS(<<1, Len(ids)>>, VSum([i \in 1..Len(ids) |-> V[ids[i] + 1]]))
Count(q, x) == Cardinality({ i \in 1..Len(q) : q[i] = x })
SameBag(p, q) == Len(p) = Len(q) /\ \A i \in 1..Len(p) : Count(p, p[i]) = Count(q, p[i])

NTri(F)  == Cardinality({ k \in 1..Len(F) : Len(F[k]) = 3 })
NQuad(F) == Cardinality({ k \in 1..Len(F) : Len(F[k]) = 4 })
RECURSIVE SumBig(_, _)
SumBig(F, k) == IF k > Len(F) THEN 0 ELSE (IF Len(F[k]) > 4 THEN Len(F[k]) ELSE 0) + SumBig(F, k + 1)
NBig(F)  == Cardinality({ k \in 1..Len(F) : Len(F[k]) > 4 })
AllTri(F)  == \A k \in 1..Len(F) : Len(F[k]) = 3
AllQuad(F) == \A k \in 1..Len(F) : Len(F[k]) = 4
NEdges(D) == Cardinality(D.ES)

(* counts after "triangulate": quads are cut in two, larger polygons are fanned around a new vertex *)
TriV(nv, F) == nv + NBig(F)
TriF(F)     == NTri(F) + 2 * NQuad(F) + SumBig(F, 1)
TriE(D)     == NEdges(D) + NQuad(D.F) + SumBig(D.F, 1)

(* counts after n rounds of 1-to-4 / 1-to-6 refinement of a triangle mesh with v vertices, e edges, f faces *)
RECURSIVE LoopCounts(_, _, _, _)
LoopCounts(v, e, f, n) == IF n = 0 THEN <<v, e, f>> ELSE LoopCounts(v + e, 2 * e + 3 * f, 4 * f, n - 1)
RECURSIVE SixCounts(_, _, _, _)
SixCounts(v, e, f, n) == IF n = 0 THEN <<v, e, f>> ELSE SixCounts(v + e + f, 2 * e + 6 * f, 6 * f, n - 1)

(* Inputs on which index-pair meshes can express the refinement at all: two faces share at most one edge,  *)
(* and no chord of a polygon (two non-consecutive vertices of one face) is already an edge of the mesh -    *)
(* otherwise the refined surface needs two different edges between the same two vertices.                  *)
Subdividable(D) ==
  /\ \A f, g \in 0..(D.nf - 1) : f < g => Cardinality(SharedEdges(D, f, g)) <= 1
  /\ \A k \in 1..D.nf : \A i, j \in 1..Len(D.F[k]) :
        (i < j /\ j - i > 1 /\ ~(i = 1 /\ j = Len(D.F[k]))) => Key(D.F[k][i], D.F[k][j]) \notin D.ES

(* topological invariants shared by every operation *)
SameTopology(Dpre, Dpost) ==
  << << IsManifold(Dpost),                                 "result_is_an_oriented_manifold" >>,
     << Euler(Dpost) = Euler(Dpre),                        "same_euler_characteristic" >>,
     << NBorderLoops(Dpost) = NBorderLoops(Dpre),          "same_border_loops" >>,
     << NComponents(Dpost) = NComponents(Dpre),            "same_connected_components" >> >>
OldInPlace(Vpre, Vpost) == Len(Vpost) >= Len(Vpre) /\ \A i \in 1..Len(Vpre) : Vpost[i] = Vpre[i]
NewVerts(Vpre, Vpost) == SubSeq(Vpost, Len(Vpre) + 1, Len(Vpost))
EdgeMidpoints(V, D) == LET es == SetToSeq(D.ES) IN [i \in 1..Len(es) |-> VMulS(<<1, 2>>, VAdd(V[es[i][1] + 1], V[es[i][2] + 1]))]
FaceCentres(V, F)   == [k \in 1..Len(F) |-> Bary(V, F[k])]
=============================================================================
