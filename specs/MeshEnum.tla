------------------------------ MODULE MeshEnum ------------------------------
(* Enumerates every oriented polygon complex on at most NV vertices with at most MaxF     *)
(* faces of arity 3..MaxAr (state = set of faces, one action = add a face whose directed    *)
(* edges are still free).  On every distinct state the textbook identities of MeshCore are  *)
(* checked (so that an error in the oracle cannot silently agree with an error in the code) *)
(* and the vertex-manifold ones without unused vertex gaps are emitted for the harness.     *)
EXTENDS MeshCore, Json
CONSTANTS NV, MaxF, MaxAr, EmitOn
VARIABLES faces
Verts == 0..(NV - 1)

(* canonical cyclic sequences: smallest vertex first *)
Cands == UNION { { s \in [1..n -> Verts] : /\ \A i, j \in 1..n : i # j => s[i] # s[j]
                                              /\ \A m \in 2..n : s[1] < s[m] } : n \in 3..MaxAr }
DEdges(s) == { <<s[i], s[(i % Len(s)) + 1]>> : i \in 1..Len(s) }
Used == UNION { DEdges(f) : f \in faces }
Init == faces = {}
Next == /\ Cardinality(faces) < MaxF
        /\ \E s \in Cands : DEdges(s) \cap Used = {} /\ faces' = faces \cup {s}
Spec == Init /\ [][Next]_faces

FSeq == SetToSeq(faces)
VUsed == UNION { SeqSet(f) : f \in faces }
NVUsed == Cardinality(VUsed)
D == Derive(FSeq, NV, SetToSeq({ Key(d[1], d[2]) : d \in Used }))

(* ---- identities that guard the oracle ---- *)
OracleSane ==
  /\ IsOriented(D) /\ EdgesAreSides(D)
  /\ \A c \in 0..(D.nc - 1) :
        /\ PrevC(D, NextC(D, c)) = c /\ Cn(D, NextC(D, c)).f = Cn(D, c).f
        /\ OppC(D, c) # None => OppC(D, OppC(D, c)) = c /\ Cn(D, OppC(D, c)).v = Cn(D, c).nx
        /\ StepS(D, c) # None => StepT(D, StepS(D, c)) = c /\ Cn(D, StepS(D, c)).v = Cn(D, c).v
  /\ Cardinality(D.H) = D.nc
  /\ 2 * Cardinality(D.ES) = D.nc + Cardinality(BorderHE(D))      \* every edge has two sides or one and a border
  /\ IsVertexManifold(D) =>
        /\ \A v \in Verts : Len(VRingOf(D, v)) = Cardinality(Neighbours(D, v)) /\ SeqSet(VRingOf(D, v)) = Neighbours(D, v)
        /\ (IsClosed(D) /\ D.nf > 0) => (Euler(D) % 2 = 0)            \* closed orientable: chi = 2 - 2g per component
        /\ BorderVerts(D) = { v \in Verts : IsBorderVertex(D, v) }
        /\ NBorderLoops(D) <= Cardinality(BorderHE(D))

Emit == (EmitOn /\ faces # {} /\ VUsed = 0..(NVUsed - 1) /\ IsVertexManifold(D))
          => PrintT(ToJson([k |-> "M", nv |-> NVUsed, F |-> FSeq, chi |-> Euler(D), comps |-> NComponents(D),
                            loops |-> NBorderLoops(D)]))
=============================================================================
