---------------------------- MODULE C20_UF_MC ----------------------------
(* Bounded instance: all histories of add / union / find / connected / sweep over N     *)
(* element ids up to depth D.  `hist` (hidden by VIEW) is the shortest history TLC       *)
(* found to the current state; CONSTRAINT Emit prints one history per transition taken,  *)
(* which the harness replays into the real UnionFind (transition cover).                 *)
EXTENDS C20_UF, Json
CONSTANTS N, D, EmitOn
VARIABLES s, hist
vars == <<s, hist>>

E == 1..N
Act(op, a) == [op |-> op, a |-> a]

Init == s = Empty /\ hist = <<>>
Add(x)       == s' = DoAdd(s, x)       /\ hist' = Append(hist, Act("add", <<x>>))
Union(x, y)  == s' = DoUnion(s, x, y)  /\ hist' = Append(hist, Act("union", <<x, y>>))
Find(x)      == Has(s, x) /\ s' = DoFind(s, x).s /\ hist' = Append(hist, Act("find", <<x>>))
FindAbsent(x)== ~Has(s, x) /\ s' = s   /\ hist' = Append(hist, Act("find", <<x>>))
Connected(x, y) == Has(s, x) /\ Has(s, y) /\ s' = DoFind(DoFind(s, x).s, y).s
                   /\ hist' = Append(hist, Act("connected", <<x, y>>))
Sweep(op)    == Len(s.elts) > 0 /\ s' = FindAll(s, 1) /\ hist' = Append(hist, Act(op, <<>>))
Component(x) == Has(s, x) /\ s' = DoFind(FindAll(s, 1), x).s
                /\ hist' = Append(hist, Act("component", <<x>>))

Next == /\ Len(hist) < D
        /\ \/ \E x \in E : Add(x) \/ Find(x) \/ FindAbsent(x) \/ Component(x)
           \/ \E x, y \in E : Union(x, y) \/ Connected(x, y)
           \/ \E op \in {"roots", "components", "component_mapping"} : Sweep(op)

Spec == Init /\ [][Next]_vars

Invariant == Inv(s)
(* queries are stutters of the abstract state; add/union change it as the partition algebra says *)
AbstractStep ==
  [][LET a == hist'[Len(hist')] IN
       CASE a.op = "add"   -> s'.part = IF a.a[1] \in UNION s.part THEN s.part ELSE s.part \cup {{a.a[1]}}
         [] a.op = "union" -> LET p1 == DoAdd(DoAdd(s, a.a[1]), a.a[2]).part
                                  bx == CHOOSE b \in p1 : a.a[1] \in b
                                  by == CHOOSE b \in p1 : a.a[2] \in b
                              IN s'.part = (p1 \ {bx, by}) \cup {bx \cup by}
         [] OTHER          -> s'.part = s.part]_vars

View == s
Emit == EmitOn => PrintT(ToJson([k |-> "H", h |-> hist]))
=============================================================================
