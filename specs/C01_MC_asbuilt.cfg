CONSTANTS
  AsBuilt = {"he2c_no_guard"}
  D = 8
  EmitOn = FALSE
SPECIFICATION Spec
INVARIANT NoSpuriousFailure
CONSTRAINT Emit
VIEW View
CHECK_DEADLOCK FALSE
