------------------------------ MODULE C13V_Trace ------------------------------
(* Editing blocks of VolumeSubdivision on tetrahedral meshes.  Events: "enter"; one event per  *)
(* operation with the editor's (V, C) after it; "exit" with the result and the projection of the *)
(* input object before / after.  V are exact rational points.                                    *)
EXTENDS TraceKit, TetCore, Rat
VARIABLES ci, ei, st, nj, ns, ne

RDet(a, b, c) == RSub(RAdd(RMul(a[1], RSub(RMul(b[2], c[3]), RMul(b[3], c[2]))),
                           RMul(a[3], RSub(RMul(b[1], c[2]), RMul(b[2], c[1])))),
                      RMul(a[2], RSub(RMul(b[1], c[3]), RMul(b[3], c[1]))))
RAbs(x) == IF x[1] < 0 THEN RNeg(x) ELSE x
Vol6(V, c) == RAbs(RDet(VSub(V[c[1] + 1], V[c[4] + 1]), VSub(V[c[2] + 1], V[c[4] + 1]), VSub(V[c[3] + 1], V[c[4] + 1])))
TotalVol6(V, C) == RSum([k \in 1..Len(C) |-> Vol6(V, C[k])])
RECURSIVE VSum3(_)
VSum3(q) == IF q = <<>> THEN <<R(0), R(0), R(0)>> ELSE VAdd(q[1], VSum3(Tail(q)))
BaryOf(V, ids) == VMulS(<<1, Len(ids)>>, VSum3([i \in 1..Len(ids) |-> V[ids[i] + 1]]))
CellSets(C) == { TSet(C[k]) : k \in 1..Len(C) }
TriOf(C) == { s \in SUBSET (UNION CellSets(C)) : Cardinality(s) = 3 /\ \E c \in CellSets(C) : s \subseteq c }
BorderTris(C) == { s \in TriOf(C) : Cardinality({ c \in CellSets(C) : s \subseteq c }) = 1 }
Conforming(C) == /\ \A k \in 1..Len(C) : Len(C[k]) = 4 /\ Cardinality(TSet(C[k])) = 4
                 /\ Cardinality(CellSets(C)) = Len(C)
                 /\ \A s \in TriOf(C) : Cardinality({ c \in CellSets(C) : s \subseteq c }) <= 2

InitState(c) == [V |-> c.given.V, C |-> c.given.C, fam |-> c.given.family, cellsplit |-> FALSE, mixed |-> FALSE]     \* cellsplit: a cell was split earlier in this block; mixed: ... and a face was split after it
Judge(c, s, e) ==
  LET op == e.op IN
  IF op = "enter" THEN Ok(s)
  ELSE IF op = "exit" THEN
       Check(<< << e.exc = "", "block_exit_succeeds" >>,
                << e.V = s.V /\ e.C = s.C, "result_is_what_the_editor_built" >>,
                << LET D == DeriveT(e.C, e.F, e.E, Len(e.V)) IN IsTetComplex(D), "result_faces_and_edges_completed_from_cells" >>,
                << e.input_after = e.input_before \/ e.input_after = e.result_proj, "input_object_unchanged_or_equal_to_result" >> >>,
             "volume" \o (IF e.queried = 1 THEN "/queried_before" ELSE "/fresh") \o (IF s.mixed THEN "/face_split_after_cell_split" ELSE ""), "", s)
  ELSE IF e.exc # "" THEN Bad("operation_accepts_admissible_mesh", op, e.exc, s)
  ELSE
  LET nv == Len(s.V)
      new == SubSeq(e.V, nv + 1, Len(e.V))
      common == << << Len(e.V) >= nv /\ SubSeq(e.V, 1, nv) = s.V, "original_vertices_in_place" >>,
                   << Conforming(e.C), "result_is_a_conforming_tetrahedral_complex" >>,
                   << TotalVol6(e.V, e.C) = TotalVol6(s.V, s.C), "same_total_volume" >>,
                   << \A k \in 1..Len(e.C) : ~RIsZero(Vol6(e.V, e.C[k])), "no_degenerate_cell" >> >>
      specific ==
        CASE op = "split_cell_as_fan" ->
               << << Len(e.C) = Len(s.C) + 3 /\ Len(e.V) = nv + 1, "documented_element_counts" >>,
                  << new = <<BaryOf(s.V, s.C[e.c + 1])>>, "new_vertex_at_cell_centre" >>,
                  << BorderTris(e.C) = BorderTris(s.C), "boundary_unchanged" >> >>
          [] op = "split_tet_from_face_center" ->
               LET f == TSet(e.fv)
                   inc == Cardinality({ cc \in CellSets(s.C) : f \subseteq cc })
               IN << << Len(e.C) = Len(s.C) + 2 * inc /\ Len(e.V) = nv + 1, "documented_element_counts" >>,
                     << new = <<BaryOf(s.V, e.fv)>>, "new_vertex_at_face_centre" >>,
                     << Cardinality(BorderTris(e.C)) = Cardinality(BorderTris(s.C)) + (IF inc = 1 THEN 2 ELSE 0), "boundary_refined_only_at_that_face" >> >>
          [] OTHER -> << << FALSE, "unknown_operation" >> >>
  IN Check(specific \o common, op \o (IF op = "split_tet_from_face_center" /\ s.cellsplit THEN "/after_cell_split_in_the_same_block" ELSE ""), "",
           [s EXCEPT !.V = e.V, !.C = e.C, !.cellsplit = s.cellsplit \/ op = "split_cell_as_fan", !.mixed = s.mixed \/ (op = "split_tet_from_face_center" /\ s.cellsplit)])

W == INSTANCE Walker
Spec == W!Spec
=============================================================================
