CONSTANTS
  NP = 4
  Dim = 1
  Leaf = 1
  AsBuilt = FALSE
SPECIFICATION Spec
INVARIANT KNearest
CHECK_DEADLOCK FALSE
