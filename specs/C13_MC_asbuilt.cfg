CONSTANTS
  AsBuilt = {"no_sync_on_exit"}
  D = 6
  EmitOn = FALSE
SPECIFICATION Spec
INVARIANT InputIntact
INVARIANT ResultValid
CONSTRAINT Emit
VIEW View
CHECK_DEADLOCK FALSE
