------------------------------ MODULE C01_MC ------------------------------
(* The lazy caches of SurfaceMesh / SurfaceMesh.connectivity as a state machine.           *)
(* State: the set of initialised caches.  One action per public query kind; the table       *)
(* Needs/Inits transcribes the lazy guards of the code.  A query FAILS when a cache it       *)
(* reads is neither initialised already nor initialised by its own guard.                    *)
(*   NoSpuriousFailure: in every reachable cache state every query succeeds (all queries     *)
(*   succeed once every cache is built, so this is the statement's "never fails on a fresh   *)
(*   mesh where it succeeds after other queries").                                           *)
(* AsBuilt = {"he2c_no_guard"} is the table of the pinned source: TLC then finds             *)
(* Build; half_edge_to_corner.  The emitted histories (one per transition of the cache       *)
(* graph) are replayed on real meshes, each query with ALL its arguments.                    *)
EXTENDS Naturals, Sequences, FiniteSets, TLC, Json
CONSTANTS AsBuilt, D, EmitOn
VARIABLES caches, failed, hist
vars == <<caches, failed, hist>>

ConnQ  == {"next_corner", "previous_corner", "opposite_corner", "corner_to_half_edge", "direct_face",
           "direct_face_inds", "edge_to_faces", "opposite_face", "opposite_face_inds", "common_edge",
           "vertex_to_vertices", "vertex_to_corners", "vertex_to_faces", "vertex_to_corner_in_face",
           "face_to_first_corner", "face_to_corners", "face_to_faces"}
PlainQ == {"corner_to_face", "face_to_vertices", "in_face_index", "other_edge_end"}
Kinds  == ConnQ \cup PlainQ \cup {"half_edge_to_corner", "vertex_to_edges", "edge_id", "face_to_edges", "face_id",
           "is_edge_on_border", "boundary_edges", "interior_edges", "is_vertex_on_border", "boundary_vertices",
           "interior_vertices", "is_triangular", "is_quad", "clear", "clear_boundary_data"}

Inits(q) == CASE q \in ConnQ -> {"conn"}
              [] q = "half_edge_to_corner" -> IF "he2c_no_guard" \in AsBuilt THEN {} ELSE {"conn"}
              [] q = "vertex_to_edges" -> {"conn", "edge_id"}
              [] q \in {"edge_id", "face_to_edges"} -> {"edge_id"}
              [] q = "face_id" -> {"face_id"}
              [] q = "is_edge_on_border" -> {"conn", "edge_id"}
              [] q \in {"boundary_edges", "interior_edges"} -> {"conn", "edge_id", "bnd_e"}
              [] q \in {"is_vertex_on_border", "boundary_vertices", "interior_vertices"} -> {"conn", "edge_id", "bnd_e", "bnd_v"}
              [] q \in {"is_triangular", "is_quad"} -> {"type"}
              [] OTHER -> {}
Needs(q) == CASE q = "half_edge_to_corner" -> {"conn"}
              [] OTHER -> Inits(q)
Drops(q) == CASE q = "clear" -> {"conn", "edge_id", "face_id"}
              [] q = "clear_boundary_data" -> {"bnd_e", "bnd_v"}
              [] OTHER -> {}

Init == caches = {} /\ failed = FALSE /\ hist = <<>>
Query(q) == /\ caches' = (caches \cup Inits(q)) \ Drops(q)
            /\ failed' = ~(Needs(q) \subseteq (caches \cup Inits(q)))
            /\ hist' = Append(hist, q)
Next == Len(hist) < D /\ \E q \in Kinds : Query(q)
Spec == Init /\ [][Next]_vars
NoSpuriousFailure == ~failed
View == <<caches, failed>>
Emit == EmitOn => PrintT(ToJson([k |-> "H", h |-> hist]))
=============================================================================
