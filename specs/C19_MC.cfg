SPECIFICATION Spec
INVARIANT Theorems
CHECK_DEADLOCK FALSE
