------------------------------ MODULE C02_Build ------------------------------
(* What construction must make of raw data - written from the statement, not from the code.  *)
(* raw = [nv, E (declared edges, possibly invalid), F (faces), C (cells: 4 or 8 vertex ids),   *)
(*        att (sparse attribute on declared edges: set of <<index (0-based), value>>),          *)
(*        completeE, completeF]                                                                  *)
(* Build(raw) = [nv, E, F, C, hard, att, fc (face corners: <<vertex, face>>), cc (cell corners:   *)
(*        <<vertex, cell>>), cf (cell faces: <<face id, cell>>), cls]                             *)
EXTENDS Naturals, Integers, Sequences, FiniteSets, TLC, SequencesExt

Min2(a, b) == IF a < b THEN a ELSE b
Max2(a, b) == IF a < b THEN b ELSE a
Key2(e) == <<Min2(e[1], e[2]), Max2(e[1], e[2])>>
SeqSet(q) == { q[i] : i \in 1..Len(q) }
VSet(f) == SeqSet(f)                                         \* a face / cell is identified by its vertex set
Valid(raw, e) == e[1] # e[2] /\ e[1] \in 0..(raw.nv - 1) /\ e[2] \in 0..(raw.nv - 1)

(* faces of a cell, in the documented order: face i of a tetrahedron is opposite its vertex i *)
CellFaces(c) ==
  IF Len(c) = 4
  THEN << <<c[2], c[4], c[3]>>, <<c[1], c[3], c[4]>>, <<c[4], c[2], c[1]>>, <<c[1], c[2], c[3]>> >>
  ELSE << <<c[1], c[2], c[3], c[4]>>, <<c[5], c[6], c[7], c[8]>>, <<c[1], c[4], c[8], c[5]>>,
          <<c[1], c[2], c[6], c[5]>>, <<c[2], c[3], c[7], c[6]>>, <<c[3], c[4], c[8], c[7]>> >>

(* append the items of `cands` whose key is not yet present, each once, in first-occurrence order *)
RECURSIVE AddNewK(_, _, _, _)
AddNewK(base, bkeys, cands, ckeys) ==          \* keys are carried next to the items (RECURSIVE operators take no operator arguments)
  IF cands = <<>> THEN base
  ELSE IF ckeys[1] \in SeqSet(bkeys)
       THEN AddNewK(base, bkeys, Tail(cands), Tail(ckeys))
       ELSE AddNewK(Append(base, cands[1]), Append(bkeys, ckeys[1]), Tail(cands), Tail(ckeys))
Keys(q, K(_)) == [i \in 1..Len(q) |-> K(q[i])]

Faces(raw) == IF raw.completeF /\ raw.C # <<>>
              THEN LET cf == FlattenSeq([k \in 1..Len(raw.C) |-> CellFaces(raw.C[k])]) IN AddNewK(raw.F, Keys(raw.F, VSet), cf, Keys(cf, VSet))
              ELSE raw.F
Sides(F) == FlattenSeq([k \in 1..Len(F) |-> [i \in 1..Len(F[k]) |-> Key2(<<F[k][i], F[k][(i % Len(F[k])) + 1]>>)]])
KeptIdx(raw) == SelectSeq([i \in 1..Len(raw.E) |-> i], LAMBDA i : Valid(raw, raw.E[i]))     \* surviving declared edges
Declared(raw) == [j \in 1..Len(KeptIdx(raw)) |-> Key2(raw.E[KeptIdx(raw)[j]])]
Edges(raw) == IF raw.completeE /\ Faces(raw) # <<>>
              THEN AddNewK(Declared(raw), Declared(raw), Sides(Faces(raw)), Sides(Faces(raw)))
              ELSE Declared(raw)
(* surviving edges keep their attribute values, re-indexed by their new position *)
Att(raw) == UNION { { <<j - 1, p[2]>> : p \in { q \in raw.att : q[1] = KeptIdx(raw)[j] - 1 } } : j \in 1..Len(KeptIdx(raw)) }
HardFlagsExist(raw) == raw.completeE /\ Faces(raw) # <<>>
Hard(raw) == IF HardFlagsExist(raw) THEN 0..(Len(KeptIdx(raw)) - 1) ELSE {}
FaceIdOf(F, f) == (CHOOSE k \in 1..Len(F) : VSet(F[k]) = VSet(f)) - 1
Corners(X) == FlattenSeq([k \in 1..Len(X) |-> [i \in 1..Len(X[k]) |-> <<X[k][i], k - 1>>]])
CellFaceRecs(raw) == LET F == Faces(raw) IN
  FlattenSeq([k \in 1..Len(raw.C) |-> [i \in 1..Len(CellFaces(raw.C[k])) |-> <<FaceIdOf(F, CellFaces(raw.C[k])[i]), k - 1>>]])
Class(raw) == IF raw.C # <<>> THEN "VolumeMesh" ELSE IF Faces(raw) # <<>> THEN "SurfaceMesh"
              ELSE IF Declared(raw) # <<>> THEN "PolyLine" ELSE "PointCloud"

Build(raw) ==
  [nv |-> raw.nv, E |-> Edges(raw), F |-> Faces(raw), C |-> raw.C, hard |-> Hard(raw), att |-> Att(raw),
   fc |-> Corners(Faces(raw)), cc |-> Corners(raw.C),
   cf |-> IF raw.completeF \/ raw.C = <<>> THEN CellFaceRecs(raw) ELSE <<>>, cls |-> Class(raw)]

(* building again from an already built mesh: its containers are the raw data, its hard flags and attributes persist *)
AsRaw(b, completeE, completeF) ==
  [nv |-> b.nv, E |-> b.E, F |-> b.F, C |-> b.C, att |-> b.att, completeE |-> completeE, completeF |-> completeF]
Rebuild(b, cE, cF) == [Build(AsRaw(b, cE, cF)) EXCEPT !.hard = b.hard]      \* ... and only declared edges stay hard

WellFormed(b) ==
  /\ \A i \in 1..Len(b.E) : b.E[i][1] < b.E[i][2] /\ b.E[i][2] < b.nv          \* low index first, no self-loop, in range
  /\ Cardinality(SeqSet(b.E)) = Len(b.E)                                      \* every edge once
  /\ Cardinality({ VSet(b.F[k]) : k \in 1..Len(b.F) }) = Len(b.F)             \* a shared face once
  /\ b.hard \subseteq 0..(Len(b.E) - 1)
=============================================================================
