SPECIFICATION Spec
CONSTANTS
  MeshId = "cube"
  Orders = {1, 2, 3, 4, 5, 6}
  TieAll = FALSE
  Sample = 997
INVARIANT ModelSane
INVARIANT QuantumThm
INVARIANT SumThm
INVARIANT MatchingThm
INVARIANT Emit
CHECK_DEADLOCK FALSE
