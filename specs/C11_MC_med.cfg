CONSTANTS
  NP = 4
  Dim = 1
  Leaf = 2
  Strategy = "median"
  AsBuilt = FALSE
  EmitOn = TRUE
SPECIFICATION Spec
INVARIANT Partition
INVARIANT BoundedSplits
INVARIANT Emit
PROPERTY Terminates
CHECK_DEADLOCK FALSE
