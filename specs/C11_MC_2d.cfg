CONSTANTS
  NP = 3
  Dim = 2
  Leaf = 1
  Strategy = "random"
  AsBuilt = FALSE
  EmitOn = TRUE
SPECIFICATION Spec
INVARIANT Partition
INVARIANT BoundedSplits
INVARIANT Emit
PROPERTY Terminates
CHECK_DEADLOCK FALSE
