---------------------------- MODULE C08_Operators ----------------------------
(* Exact discrete differential operators on integer lattice triangle meshes (cotangents are     *)
(* rational when every triangle's cross product has integer length: planar lattices, box surfaces). *)
(* Matrices are sequences of rows of exact rationals.  Sign convention of the library: the            *)
(* Laplacian is positive semi-definite (positive diagonal).                                           *)
EXTENDS C07_Quantities

Mat(n, m, f(_, _)) == [i \in 1..n |-> [j \in 1..m |-> f(i, j)]]
Zero == R(0)
CotAvail(g, D) == \A e \in 1..Len(g.E) : CotanWeight(g, D, e)[2] # 0
EdgeIdx(g, u, v) == LET s == { k \in 1..Len(g.E) : {g.E[k][1], g.E[k][2]} = {u, v} } IN IF s = {} THEN 0 ELSE CHOOSE k \in s : TRUE
(* stiffness matrix: L_ij = -1/2 (cot a_ij + cot b_ij) on edges, L_ii = - sum_j L_ij   (CotanWeight = 1/2 (cot a + cot b)) *)
Stiffness(g, D) ==
  LET n == Len(g.P) IN
  Mat(n, n, LAMBDA i, j :
     IF i # j THEN (IF EdgeIdx(g, i - 1, j - 1) = 0 THEN Zero ELSE RNeg(CotanWeight(g, D, EdgeIdx(g, i - 1, j - 1))))
     ELSE RSum([k \in 1..Len(g.E) |-> IF (i - 1) \in {g.E[k][1], g.E[k][2]} THEN CotanWeight(g, D, k) ELSE Zero]))
(* the same with weight 1/2 per incident triangle instead of the cotangents *)
UniformStiffness(g, D) ==
  LET n == Len(g.P)
      w(k) == Norm(<<Cardinality({ f \in 1..Len(g.F) : {g.E[k][1], g.E[k][2]} \subseteq SeqSet(g.F[f]) }), 2>>)
  IN Mat(n, n, LAMBDA i, j :
     IF i # j THEN (IF EdgeIdx(g, i - 1, j - 1) = 0 THEN Zero ELSE RNeg(w(EdgeIdx(g, i - 1, j - 1))))
     ELSE RSum([k \in 1..Len(g.E) |-> IF (i - 1) \in {g.E[k][1], g.E[k][2]} THEN w(k) ELSE Zero]))
GraphLaplacian(g) == LET n == Len(g.P) IN
  Mat(n, n, LAMBDA i, j : IF i = j THEN R(Degree(g, i - 1)) ELSE IF EdgeIdx(g, i - 1, j - 1) # 0 THEN R(-1) ELSE Zero)
Adjacency(g, W) == LET n == Len(g.P) IN      \* W: weight per edge (sequence of rationals)
  Mat(n, n, LAMBDA i, j : IF i # j /\ EdgeIdx(g, i - 1, j - 1) # 0 THEN W[EdgeIdx(g, i - 1, j - 1)] ELSE Zero)
V2E(g, oriented) == Mat(Len(g.P), Len(g.E), LAMBDA v, e :
  IF g.E[e][1] = v - 1 THEN (IF oriented THEN R(-1) ELSE R(1)) ELSE IF g.E[e][2] = v - 1 THEN R(1) ELSE Zero)
V2F(g) == Mat(Len(g.F), Len(g.P), LAMBDA f, v : IF (v - 1) \in SeqSet(g.F[f]) THEN <<1, Len(g.F[f])>> ELSE Zero)
(* areas (rational when Area2x4 is a perfect square) *)
AreaAvail(g) == \A f \in 1..Len(g.F) : FacePlanar(g, f) /\ IsSq(Area2x4(g, f)) /\ Area2x4(g, f) > 0
FArea(g, f) == Norm(<<ISqrt(Area2x4(g, f)), 2>>)
VertexMass(g) == [v \in 1..Len(g.P) |-> RSum([f \in 1..Len(g.F) |-> IF (v - 1) \in SeqSet(g.F[f]) THEN FArea(g, f) ELSE Zero])]
EdgeMass(g) == [e \in 1..Len(g.E) |-> RSum([f \in 1..Len(g.F) |-> IF {g.E[e][1], g.E[e][2]} \subseteq SeqSet(g.F[f]) THEN RMul(<<1, 3>>, FArea(g, f)) ELSE Zero])]
FaceMass(g) == [f \in 1..Len(g.F) |-> FArea(g, f)]
TotalArea(g) == RSum(FaceMass(g))
VertexMassVol(g) == [v \in 1..Len(g.P) |-> RSum([c \in 1..Len(g.C) |-> IF (v - 1) \in SeqSet(g.C[c]) THEN CellVol(g, c) ELSE Zero])]
TotalVol(g) == RSum([c \in 1..Len(g.C) |-> CellVol(g, c)])
(* dual (face-based) Laplacian  N* D N : one row per face, D = 1/(cot a + cot b) per interior edge, or 1 *)
DualLaplacian(g, D, cotan) ==
  LET nf == Len(g.F)
      shared(a, b) == { k \in 1..Len(g.E) : {g.E[k][1], g.E[k][2]} \subseteq SeqSet(g.F[a]) /\ {g.E[k][1], g.E[k][2]} \subseteq SeqSet(g.F[b]) }
      w(k) == IF cotan THEN RInv(RMul(R(2), CotanWeight(g, D, k))) ELSE R(1)
  IN Mat(nf, nf, LAMBDA a, b :
       IF a # b THEN (IF shared(a, b) = {} THEN Zero ELSE RNeg(w(CHOOSE k \in shared(a, b) : TRUE)))
       ELSE RSum([k \in 1..Len(g.E) |-> IF {g.E[k][1], g.E[k][2]} \subseteq SeqSet(g.F[a]) /\ IsInteriorEdge(D, g.E[k][1], g.E[k][2]) THEN w(k) ELSE Zero]))
DualAvail(g, D) == \A k \in 1..Len(g.E) : ~IsInteriorEdge(D, g.E[k][1], g.E[k][2]) \/ (CotanWeight(g, D, k)[2] # 0 /\ ~RIsZero(CotanWeight(g, D, k)))
(* flat gradient on a planar (z = const) mesh, canonical basis: per face the complex number (df/dx, df/dy) *)
Planar(g) == \A f \in 1..Len(g.F) : FaceN(g, f)[1] = 0 /\ FaceN(g, f)[2] = 0
GradEntry(g, f, v, ysign) ==          \* <<re, im>> of G[f, v] for the triangle (A,B,C) = g.F[f]
  LET t == g.F[f]
      a2 == FaceN(g, f)[3] * ysign                                  \* 2 * signed area in the basis (X, ysign * Y)
      x(i) == Pt(g, t[i])[1]
      y(i) == ysign * Pt(g, t[i])[2]
  IN IF v = t[1] THEN << Norm(<<y(2) - y(3), a2>>), Norm(<<x(3) - x(2), a2>>) >>
     ELSE IF v = t[2] THEN << Norm(<<y(3) - y(1), a2>>), Norm(<<x(1) - x(3), a2>>) >>
     ELSE IF v = t[3] THEN << Norm(<<y(1) - y(2), a2>>), Norm(<<x(2) - x(1), a2>>) >>
     ELSE << Zero, Zero >>
IsSym(M) == \A i \in 1..Len(M) : \A j \in 1..Len(M) : M[i][j] = M[j][i]
RowSumsZero(M) == \A i \in 1..Len(M) : RSum(M[i]) = Zero
=============================================================================
