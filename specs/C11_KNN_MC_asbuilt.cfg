CONSTANTS
  NP = 5
  Dim = 1
  Leaf = 1
  AsBuilt = TRUE
SPECIFICATION Spec
INVARIANT KNearest
CHECK_DEADLOCK FALSE
