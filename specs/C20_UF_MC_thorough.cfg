CONSTANTS
  N = 4
  D = 5
  EmitOn = TRUE
SPECIFICATION Spec
INVARIANT Invariant
PROPERTY AbstractStep
CONSTRAINT Emit
VIEW View
CHECK_DEADLOCK FALSE
