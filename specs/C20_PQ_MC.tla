---------------------------- MODULE C20_PQ_MC ----------------------------
EXTENDS C20_PQ, TLC, Json
CONSTANTS NI, D, EmitOn       \* items 1..NI, each pushed at most once
Prios == {-9, -1, 0, 1, 9}           \* ties arise by pushing the same priority twice; -9 / 9 stand for -inf / +inf
VARIABLES s, hist
vars == <<s, hist>>
Act(op, a) == [op |-> op, a |-> a]
Pushed == { hist[i].a[1] : i \in { j \in 1..Len(hist) : hist[j].op = "push" } }
Init == s = PQEmpty /\ hist = <<>>
Push(x, p) == x \notin Pushed /\ s' = PQPush(s, x, p) /\ hist' = Append(hist, Act("push", <<x, p>>))
Get(op) == /\ s.heap # <<>>
           /\ LET r == HeapPop(s.heap) IN s' = [bag |-> s.bag \ {r[1]}, heap |-> r[2]]
           /\ hist' = Append(hist, Act(op, <<>>))
GetEmpty == s.heap = <<>> /\ s' = s /\ hist' = Append(hist, Act("get", <<>>))
Query(op) == s' = s /\ hist' = Append(hist, Act(op, <<>>))
Next == /\ Len(hist) < D
        /\ \/ \E x \in 1..NI, p \in Prios : x = Cardinality(Pushed) + 1 /\ Push(x, p)
           \/ Get("get") \/ Get("pop") \/ GetEmpty \/ Query("front") \/ Query("empty")
Spec == Init /\ [][Next]_vars
Invariant == /\ HeapOrdered(s.heap)
             /\ { s.heap[i] : i \in 1..Len(s.heap) } = s.bag /\ Len(s.heap) = Cardinality(s.bag)
(* the array's pop implements the abstract "hand out a pending item of minimum priority" *)
PopRefines == [][ (hist'[Len(hist')].op \in {"get", "pop"} /\ s.bag # {}) =>
                    \E it \in s.bag : it[2] = PQMin(s) /\ s'.bag = s.bag \ {it} ]_vars
View == <<s, Pushed>>
Emit == EmitOn => PrintT(ToJson([k |-> "H", h |-> hist]))
=============================================================================
