------------------------------ MODULE C11_Trace ------------------------------
(* Judges real KDTree constructions and queries.  given = [pts (integer points), leaf, strategy]   *)
(* "build": nodes = sequence of [id, leaf (0/1), axis, split, left, right, pts]; exc                  *)
(* "knn": q, k, ret;   "radius": q, m (radius^2 = m + 1/2), ret                                        *)
EXTENDS TraceKit, C11_KD
VARIABLES ci, ei, st, nj, ns, ne

InitState(c) == [pts |-> c.given.pts, cls |-> c.given.cls]
NodeOf(nodes, id) == CHOOSE n \in SeqToSet(nodes) : n.id = id
RECURSIVE SubPts(_, _, _)
SubPts(nodes, id, fuel) == LET n == NodeOf(nodes, id) IN
  IF n.leaf = 1 \/ fuel = 0 THEN SeqToSet(n.pts) ELSE SubPts(nodes, n.left, fuel - 1) \cup SubPts(nodes, n.right, fuel - 1)
BuildOk(pts, nodes) ==
  LET leaves == { n \in SeqToSet(nodes) : n.leaf = 1 }
      inner == { n \in SeqToSet(nodes) : n.leaf = 0 }
      N == Len(nodes)
  IN << << \A i \in 0..(Len(pts) - 1) : Cardinality({ n \in leaves : i \in SeqToSet(n.pts) }) = 1, "every_point_in_exactly_one_leaf" >>,
        << \A n \in leaves : Len(n.pts) = Cardinality(SeqToSet(n.pts)) /\ SeqToSet(n.pts) \subseteq 0..(Len(pts) - 1), "leaves_hold_valid_indices_once" >>,
        << \A n \in inner : /\ \A i \in SubPts(nodes, n.left, N) : Coord(pts, i, n.axis) <= n.split
                            /\ \A i \in SubPts(nodes, n.right, N) : Coord(pts, i, n.axis) >= n.split, "subtrees_respect_their_split" >> >>
Judge(c, s, e) ==
  CASE e.op = "build" ->
         IF e.exc # "" THEN Bad("construction_terminates", s.cls, e.exc, s)
         ELSE Check(BuildOk(s.pts, e.nodes), s.cls, "", s)
    [] e.op = "knn" ->
         Check(<< << e.exc = "", "query_succeeds" >>, << KnnOk(s.pts, e.q, e.k, e.ret), "k_nearest_are_the_k_smallest_distances_in_order" >> >>,
               s.cls \o (IF e.k > Len(s.pts) THEN "/k>n" ELSE ""), "", s)
    [] e.op = "radius" ->
         Check(<< << e.exc = "", "query_succeeds" >>, << RadiusOk(s.pts, e.q, e.m, e.ret), "radius_query_returns_exactly_the_points_within" >> >>, s.cls, "", s)
    [] e.op = "radius_int" ->     \* integer radius e.r: the sphere itself belongs to the ball
         Check(<< << e.exc = "", "query_succeeds" >>,
                  << { e.ret[j] : j \in 1..Len(e.ret) } = { i \in 0..(Len(s.pts) - 1) : D2(s.pts, i, e.q) <= e.r * e.r }
                     /\ Len(e.ret) = Cardinality({ e.ret[j] : j \in 1..Len(e.ret) }), "radius_query_returns_exactly_the_points_within" >> >>, s.cls \o "/on_the_sphere", "", s)
    [] OTHER -> Bad("unknown_operation", e.op, "", s)
W0 == INSTANCE Walker
Spec == W0!Spec
=============================================================================
