CONSTANTS
  Surface = "annulus"
  MaxS = 2
  MaxT = 3
SPECIFICATION Spec
INVARIANT CutIsADisk
INVARIANT DualTreeSpans
CHECK_DEADLOCK FALSE
