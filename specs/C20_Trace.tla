------------------------------ MODULE C20_Trace ------------------------------
(* Validates recorded executions of the real UnionFind / PriorityQueue against C20_UF    *)
(* and C20_PQ.  Case: given.kind = "uf" | "pq".                                          *)
EXTENDS TraceKit, C20_UF, C20_PQ, FiniteSets

VARIABLES ci, ei, st, nj, ns, ne

InitState(c) == IF c.given.kind = "uf" THEN Empty ELSE PQEmpty

(* ---------------- union-find ---------------- *)
Pairs(s) == { <<x, y>> \in Added(s) \X Added(s) : x < y /\ SameBlock(s, x, y) }
ProjOk(s, p) ==      \* projection recorded after every step (queried on a deep copy)
  <<  << SeqToSet(p.has) = Added(s) /\ Len(p.has) = Cardinality(Added(s)), "contains" >>,
      << p.n = Cardinality(Added(s)) /\ p.ne = p.n,                          "element_count" >>,
      << p.nc = Cardinality(s.part),                                         "component_count" >>,
      << { <<q[1], q[2]>> : q \in SeqToSet(p.conn) } = Pairs(s),              "connected_iff_joined" >>  >>

IsTransversal(s, ids) ==      \* one id per block, each block once
  /\ \A b \in s.part : Cardinality({ x \in ids : x \in b }) = 1
  /\ ids \subseteq Added(s)
UFClass(s, e) == e.given_family

JudgeUF(s, e, fam) ==
  LET a == e.a
      op == e.op
      nxt == CASE op = "add"   -> DoAdd(s, a[1])
               [] op = "union" -> DoUnion(s, a[1], a[2])
               [] OTHER        -> s          \* queries: stutter on the abstract state
      absent == CASE op \in {"find", "component"} -> ~Has(s, a[1])
                  [] op = "connected" -> ~Has(s, a[1]) \/ ~Has(s, a[2])
                  [] OTHER -> FALSE
      resOk ==
        CASE op \in {"add", "union"} -> <<e.exc = "", "accepted">>
          [] absent -> <<e.exc = "ValueError", "absent_element_rejected">>
          [] e.exc # "" -> <<FALSE, "query_succeeds">>
          [] op = "find" -> << e.ret[1] \in 0..(Len(s.elts) - 1) /\ SameBlock(s, s.elts[e.ret[1] + 1], a[1]),
                               "find_returns_member_of_block" >>
          [] op = "connected" -> << (e.ret[1] = 1) = SameBlock(s, a[1], a[2]), "connected_iff_joined" >>
          [] op = "component" -> << SeqToSet(e.ret) = BlockOf(s, a[1]) /\ Len(e.ret) = Cardinality(BlockOf(s, a[1])),
                                    "component_is_block" >>
          [] op = "components" -> << { SeqToSet(b) : b \in SeqToSet(e.ret) } = s.part
                                      /\ Len(e.ret) = Cardinality(s.part)
                                      /\ \A i \in 1..Len(e.ret) : Len(e.ret[i]) = Cardinality(SeqToSet(e.ret[i])),
                                     "components_is_partition" >>
          [] op = "roots" ->       \* documented as elements, implemented as positions: either reading,
                                   \* as long as it designates exactly one member of every block
               << /\ Len(e.ret) = Cardinality(s.part)
                  /\ \/ IsTransversal(s, SeqToSet(e.ret))
                     \/ /\ \A i \in 1..Len(e.pos) : e.pos[i] \in 0..(Len(s.elts) - 1)
                        /\ Len(e.pos) = Cardinality(s.part)
                        /\ IsTransversal(s, { s.elts[e.pos[i] + 1] : i \in 1..Len(e.pos) }),
                  "roots_one_per_component" >>
          [] op = "component_mapping" ->
               << /\ { m[1] : m \in SeqToSet(e.ret) } = Added(s)
                  /\ Len(e.ret) = Cardinality(Added(s))
                  /\ \A i \in 1..Len(e.ret) : SeqToSet(e.ret[i][2]) = BlockOf(s, e.ret[i][1]),
                  "mapping_is_partition" >>
          [] OTHER -> <<FALSE, "unknown_operation">>
  IN Check(<<resOk>> \o ProjOk(nxt, e.proj), fam, "", nxt)

(* ---------------- priority queue ---------------- *)
JudgePQ(s, e, fam) ==
  LET op == e.op
      nxt == CASE op = "push" -> PQPush(s, e.a[1], e.a[2])
               [] op \in {"get", "pop"} /\ e.exc = "" /\ s.bag # {} /\ e.ret[1] \in { it[1] : it \in s.bag }
                     -> PQRemove(s, e.ret[1])
               [] OTHER -> s
      resOk ==
        CASE op = "push" -> <<e.exc = "", "accepted">>
          [] op \in {"get", "pop"} ->
               IF s.bag = {} THEN <<e.exc = "IndexError", "empty_queue_rejected">>
               ELSE << e.exc = "" /\ <<e.ret[1], e.ret[2]>> \in s.bag /\ e.ret[2] = PQMin(s),
                       "hands_out_pending_minimum" >>
          [] op = "front" ->
               IF s.bag = {} THEN <<e.exc # "", "empty_queue_rejected">>
               ELSE << e.exc = "" /\ <<e.ret[1], e.ret[2]>> \in s.bag /\ e.ret[2] = PQMin(s),
                       "front_is_pending_minimum" >>
          [] op = "empty" -> << e.exc = "" /\ (e.ret[1] = 1) = (s.bag = {}), "empty_iff_no_pending" >>
          [] OTHER -> <<FALSE, "unknown_operation">>
      projOk == << e.proj.empty = (IF nxt.bag = {} THEN 1 ELSE 0) /\ e.proj.size = Cardinality(nxt.bag),
                   "size_and_emptiness" >>
  IN Check(<<resOk, projOk>>, fam, "", nxt)

Judge(c, s, e) == IF c.given.kind = "uf" THEN JudgeUF(s, e, c.given.family) ELSE JudgePQ(s, e, c.given.family)

(* ---------------- walker ---------------- *)
W == INSTANCE Walker
Spec == W!Spec
=============================================================================
