--------------------------- MODULE C14_Procedural ---------------------------
(* The promise of every procedural generator as a table:  Want(gen, p) = [cls, nv, nf, ar (0 = any,     *)
(* 3, 4, 5), chi, loops, comps], -1 meaning "not tabulated".  RefFaces gives the reference index          *)
(* arithmetic of the grid-like generators so that the table itself can be model-checked (C14_MC).         *)
EXTENDS MeshCore

Pow4(n) == IF n = 0 THEN 1 ELSE IF n = 1 THEN 4 ELSE IF n = 2 THEN 16 ELSE 64
T(cls, nv, nf, ar, chi, loops, comps) == [cls |-> cls, nv |-> nv, nf |-> nf, ar |-> ar, chi |-> chi, loops |-> loops, comps |-> comps]
Want(gen, p) ==
  CASE gen = "tetrahedron"  -> IF p.volume = 1 THEN T("VolumeMesh", 4, 4, 3, 2, 0, 1) ELSE T("SurfaceMesh", 4, 4, 3, 2, 0, 1)
    [] gen \in {"hexahedron", "axis_aligned_cube", "hexahedron_4pts"} ->
         IF p.volume = 1 THEN T("VolumeMesh", 8, 6, 4, 2, 0, 1)
         ELSE IF p.triangulate = 1 THEN T("SurfaceMesh", 8, 12, 3, 2, 0, 1) ELSE T("SurfaceMesh", 8, 6, 4, 2, 0, 1)
    [] gen = "octahedron"   -> T("SurfaceMesh", 6, 8, 3, 2, 0, 1)
    [] gen = "icosahedron"  -> T("SurfaceMesh", 12, 20, 3, 2, 0, 1)
    [] gen = "dodecahedron" -> T("SurfaceMesh", 20, 12, 5, 2, 0, 1)
    [] gen = "cylinder"     -> IF p.caps = 1 THEN T("SurfaceMesh", 2 * p.N + 2, 4 * p.N, 3, 2, 0, 1) ELSE T("SurfaceMesh", 2 * p.N, 2 * p.N, 3, 0, 2, 1)
    [] gen = "torus"        -> IF p.triangulate = 1 THEN T("SurfaceMesh", p.M * p.m, 2 * p.M * p.m, 3, 0, 0, 1) ELSE T("SurfaceMesh", p.M * p.m, p.M * p.m, 4, 0, 0, 1)
    [] gen = "sphere_uv"    -> T("SurfaceMesh", p.n_lat * p.n_long + 2, (p.n_lat + 1) * p.n_long, 0, 2, 0, 1)   \* n_lat rings of n_long points and the two poles
    [] gen = "icosphere"    -> T("SurfaceMesh", 10 * Pow4(p.n) + 2, 20 * Pow4(p.n), 3, 2, 0, 1)
    [] gen = "sphere_fibonacci" -> T("SurfaceMesh", p.n, 2 * p.n - 4, 3, 2, 0, 1)
    [] gen = "triangle"     -> T("SurfaceMesh", 3, 1, 3, 1, 1, 1)
    [] gen = "quad"         -> IF p.triangulate = 1 THEN T("SurfaceMesh", 4, 2, 3, 1, 1, 1) ELSE T("SurfaceMesh", 4, 1, 4, 1, 1, 1)
    [] gen = "unit_grid"    -> IF p.triangulate = 1 THEN T("SurfaceMesh", p.nu * p.nv, 2 * (p.nu - 1) * (p.nv - 1), 3, 1, 1, 1)
                               ELSE T("SurfaceMesh", p.nu * p.nv, (p.nu - 1) * (p.nv - 1), 4, 1, 1, 1)
    [] gen = "unit_triangle" -> T("SurfaceMesh", (p.n * (p.n + 1)) \div 2, (p.n - 1) * (p.n - 1), 3, 1, 1, 1)
    [] gen = "ring"         -> T("SurfaceMesh", p.N * p.cover + (IF p.open = 1 THEN 2 ELSE 1), p.N * p.cover, 3, 1, 1, 1)
    [] gen = "flat_ring"    -> T("SurfaceMesh", p.N * p.cover + 2, p.N * p.cover, 3, 1, 1, 1)
    [] gen = "dual_mesh"    -> T("SurfaceMesh", p.srcF, p.srcV, 0, p.srcChi, 0, 1)
    [] gen = "spherify_vertices" -> T("SurfaceMesh", p.k * (10 * Pow4(p.n) + 2), p.k * 20 * Pow4(p.n), 3, 2 * p.k, 0, p.k)
    [] gen = "cylindrify_edges"  -> T("SurfaceMesh", p.k * 2 * p.N, p.k * 2 * p.N, 3, 0, 2 * p.k, p.k)
    [] OTHER -> T("?", -1, -1, 0, -1, -1, -1)

(* reference index arithmetic (0-based), as the documentation describes the shapes *)
GridFaces(nu, nv, tri) ==
  LET q == [k \in 1..((nu - 1) * (nv - 1)) |->
              LET i == (k - 1) \div (nv - 1)
                  j == (k - 1) % (nv - 1)
              IN <<i * nv + j, i * nv + j + 1, (i + 1) * nv + j + 1, (i + 1) * nv + j>>]
  IN IF tri THEN FlattenSeq([k \in 1..Len(q) |-> << <<q[k][1], q[k][2], q[k][4]>>, <<q[k][2], q[k][3], q[k][4]>> >>]) ELSE q
TorusFaces(M, m, tri) ==
  LET q == [k \in 1..(M * m) |->
              LET i == (k - 1) \div m
                  j == (k - 1) % m
              IN <<i * m + j, i * m + ((j + 1) % m), ((i + 1) % M) * m + ((j + 1) % m), ((i + 1) % M) * m + j>>]
  IN IF tri THEN FlattenSeq([k \in 1..Len(q) |-> << <<q[k][1], q[k][2], q[k][4]>>, <<q[k][2], q[k][3], q[k][4]>> >>]) ELSE q
CylinderFaces(N, caps) ==
  (IF caps THEN FlattenSeq([k \in 1..N |-> LET i == k - 1 IN << <<i, (i + 1) % N, 2 * N>>, <<i + N, 2 * N + 1, ((i + 1) % N) + N>> >>]) ELSE <<>>)
  \o FlattenSeq([k \in 1..N |-> LET i == k - 1 IN << <<i, N + i, (i + 1) % N>>, <<N + i, N + ((i + 1) % N), (i + 1) % N>> >>])
SidesOf(F) == SetToSeq(UNION { { Key(F[k][i], F[k][(i % Len(F[k])) + 1]) : i \in 1..Len(F[k]) } : k \in 1..Len(F) })

(* validity and topology of an output (n vertices, faces F) against its table entry *)
NoUnused(D) == UsedVerts(D) = 0..(D.nv - 1)
NoRepeatedFace(D) == Cardinality({ SeqSet(D.F[k]) : k \in 1..D.nf }) = D.nf
Topology(D, w) == << << InRangeF(D), "indices_in_range" >>,
                     << NoUnused(D), "no_unused_vertex" >>,
                     << NoRepeatedFace(D), "no_repeated_face" >>,
                     << w.cls = "VolumeMesh" \/ IsManifold(D), "consistently_oriented_manifold" >>,     \* the face list of a volume is not a surface
                     << (w.nv = -1 \/ D.nv = w.nv) /\ (w.nf = -1 \/ D.nf = w.nf), "documented_element_counts" >>,
                     << w.ar = 0 \/ \A k \in 1..D.nf : Len(D.F[k]) = w.ar, "face_arity_as_named" >>,
                     << w.cls = "VolumeMesh" \/ (NComponents(D) = w.comps /\ Euler(D) = w.chi /\ NBorderLoops(D) = w.loops), "topology_of_the_named_shape" >> >>
=============================================================================
