CONSTANTS
  Surface = "pyramid"
  MaxS = 3
  MaxT = 3
SPECIFICATION Spec
INVARIANT CutIsADisk
INVARIANT DualTreeSpans
CHECK_DEADLOCK FALSE
