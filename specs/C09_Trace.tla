------------------------------ MODULE C09_Trace ------------------------------
(* Judges shortest-path answers of the real library, and checks that the push / pop sequence   *)
(* its priority queue saw is a behaviour of the Dijkstra machine of C09_Paths.                   *)
(* given = [n, E (mesh edges), P (integer coordinates), border (border vertices), family]         *)
(* event = [op, start, targets, mode, W (custom weight per edge id), ret, exc, p0, steps]          *)
EXTENDS TraceKit, C09_Paths, MeshCore
VARIABLES ci, ei, st, nj, ns, ne

ISqrt(x) == CHOOSE k \in 0..x : k * k = x
Len2(P, u, v) == (P[u + 1][1] - P[v + 1][1]) * (P[u + 1][1] - P[v + 1][1]) + (P[u + 1][2] - P[v + 1][2]) * (P[u + 1][2] - P[v + 1][2])
                 + (P[u + 1][3] - P[v + 1][3]) * (P[u + 1][3] - P[v + 1][3])
GraphOf(g) == [n |-> g.n, A |-> SymClose({ <<g.E[k][1], g.E[k][2]>> : k \in 1..Len(g.E) })]
EdgeIdx(g, u, v) == CHOOSE k \in 1..Len(g.E) : {g.E[k][1], g.E[k][2]} = {u, v}
WeightOf(g, e) == [p \in GraphOf(g).A |->
                     IF e.mode = "one" THEN 1
                     ELSE IF e.mode = "length" THEN ISqrt(Len2(g.P, p[1], p[2]))
                     ELSE e.W[EdgeIdx(g, p[1], p[2])]]
(* the target set joined to a virtual sink (node n) by edges of weight 0 *)
WithSink(G, W, T) == [G |-> [n |-> G.n + 1, A |-> G.A \cup SymClose({ <<t, G.n>> : t \in T })],
                      W |-> [p \in G.A \cup SymClose({ <<t, G.n>> : t \in T }) |-> IF p \in G.A THEN W[p] ELSE 0]]

(* the recorded queue traffic is a behaviour of the Dijkstra machine *)
RECURSIVE Replay(_, _, _, _, _)
Replay(G, W, s, steps, i) ==
  IF i > Len(steps) THEN s.bag = {}                                  \* ... and it ran until the queue was empty
  ELSE LET v == steps[i][1]
           p == steps[i][2]
           cands == { e \in s.bag : e[1] = v /\ e[2] = p }
       IN /\ cands # {} /\ p = MinPrio(s)                             \* hands out a pending entry of minimum priority
          /\ LET e == CHOOSE x \in cands : TRUE
                 nxt == DStep(G, W, s, e)
                 pushed == { <<x[1], x[2]>> : x \in nxt.bag \ s.bag }
             IN /\ { <<q[1], q[2]>> : q \in SeqToSet(steps[i][3]) } = pushed /\ Len(steps[i][3]) = Cardinality(nxt.bag \ s.bag)
                /\ Replay(G, W, nxt, steps, i + 1)

InitState(c) == [g |-> c.given, G |-> GraphOf(c.given)]
Judge(c, s, e) ==
  LET G == s.G
      W == TLCEval(WeightOf(s.g, e))
      D == TLCEval(Dist(G, W, e.start))
      T == IF e.op = "to_border" THEN BorderVerts(Derive(s.g.F, s.g.n, s.g.E)) ELSE SeqToSet(e.targets)   \* the border is read off the face list
      cls == s.g.family \o "/" \o e.mode \o (IF Cardinality(T) = 1 THEN "/single_target" ELSE "") \o (IF e.start \in T THEN "/start_in_targets" ELSE "")
  IN
  IF e.op = "to_border" /\ T = {} THEN (IF e.exc # "" THEN Ok(s) ELSE Bad("closed_surface_has_no_border_to_reach", cls, "", s))
  ELSE IF \E t \in T : D[t] >= INF THEN Skip(s)                          \* not a connected pair: outside the quantifier
  ELSE IF e.exc # "" THEN Bad("query_succeeds", cls, e.exc, s)
  ELSE
  CASE e.op = "shortest_path" ->
         Check(<< << { r[1] : r \in SeqToSet(e.ret) } = T /\ Len(e.ret) = Cardinality(T), "one_path_per_target" >>,
                  << \A r \in SeqToSet(e.ret) : IsShortestPath(G, W, D, e.start, r[1], r[2]), "path_is_a_minimum_weight_edge_path" >>,
                  << e.p0 = <<e.start, 0>> /\ Replay(G, W, DInit(G, e.start), e.steps, 1), "queue_traffic_is_a_dijkstra_behaviour" >> >>,
               cls, "", s)
    [] e.op \in {"to_vertex_set", "to_border"} ->
         LET ind == e.ret[1]
             path == e.ret[2]
             X == WithSink(G, W, T)
         IN Check(<< << ind \in NearestOf(D, T), "ends_at_a_nearest_member_of_the_set" >>,
                     << IsShortestPath(G, W, D, e.start, ind, path), "path_is_a_minimum_weight_edge_path" >>,
                     << Cardinality(T) = 1 \/ (e.p0 = <<e.start, 0>> /\ Replay(X.G, X.W, DInit(X.G, e.start), e.steps, 1)),
                        "queue_traffic_is_a_dijkstra_behaviour" >> >>, cls, "", s)
    [] OTHER -> Bad("unknown_operation", e.op, "", s)

W0 == INSTANCE Walker
Spec == W0!Spec
=============================================================================
