SPECIFICATION Spec
CONSTANTS
  MaxLen = 4
  Mode = "interpolation"
INVARIANT InterpLaws
CHECK_DEADLOCK FALSE
