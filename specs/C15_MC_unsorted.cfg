CONSTANTS
  NV = 5
  MaxF = 3
  MaxAr = 4
  EmitOn = FALSE
  Sorted = FALSE
SPECIFICATION Spec
INVARIANT WalkIsTheLoop
CHECK_DEADLOCK FALSE
