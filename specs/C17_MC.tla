------------------------------- MODULE C17_MC -------------------------------
(* For every border length n = 3..16: the square assignment is injective, stays on the square and runs *)
(* once around it in border order.  With AsBuilt = TRUE the vertex after each corner coincides with it.    *)
EXTENDS C17_Tutte
CONSTANTS AsBuilt
VARIABLES n
Init == n \in 3..16
Next == UNCHANGED n
Spec == Init /\ [][Next]_n
Pos == [k \in 1..n |-> SqPos(n, k - 1, AsBuilt)]
SquareAssignmentOk == /\ \A k \in 1..n : Perim(Pos[k]) # <<-1, 1>>
                      /\ Cardinality({ Pos[k] : k \in 1..n }) = n
                      /\ CyclicMonotone([k \in 1..n |-> Perim(Pos[k])])
=============================================================================
