------------------------------- MODULE C11_KD -------------------------------
(* k-d tree over integer points.  pts: sequence of points (sequences of d integers; indices    *)
(* are 0-based as in the library).  Build: a queue of leaves [pts (set of indices), axis]; a leaf  *)
(* that is small enough - or whose points all coincide - is closed, otherwise it is split at a      *)
(* pivot p on its axis into {x <= p} / {x > p}, or, when p is the maximum on that axis (the first    *)
(* rule would move nothing), into {x < p} / {x >= p}.  Both children continue on the next axis.      *)
EXTENDS Naturals, Integers, Sequences, FiniteSets, TLC

Coord(pts, i, a) == pts[i + 1][a + 1]
AllEqual(pts, S) == \A i, j \in S : pts[i + 1] = pts[j + 1]
(* admissible pivots of a strategy on the coordinates of S along axis a; coordinates are even so that medians are integers *)
SortedCoords(pts, S, a) ==       \* the multiset of coordinates as a non-decreasing sequence
  LET n == Cardinality(S)
      rank(i) == Cardinality({ j \in S : Coord(pts, j, a) < Coord(pts, i, a) \/ (Coord(pts, j, a) = Coord(pts, i, a) /\ j < i) })
  IN [k \in 1..n |-> Coord(pts, CHOOSE i \in S : rank(i) = k - 1, a)]
Median(pts, S, a) == LET q == SortedCoords(pts, S, a)
                         n == Len(q)
                     IN IF n % 2 = 1 THEN q[(n + 1) \div 2] ELSE (q[n \div 2] + q[(n \div 2) + 1]) \div 2
Pivots(strategy, pts, S, a) == IF S = {} THEN {} ELSE IF strategy = "random" THEN { Coord(pts, i, a) : i \in S } ELSE {Median(pts, S, a)}

(* the split; AsBuilt "split_le_pivot" is the pinned source: always {x <= p} / {x > p} *)
SplitOf(pts, S, a, p, asBuilt) ==
  LET le == { i \in S : Coord(pts, i, a) <= p } IN
  IF ~asBuilt /\ le = S THEN << { i \in S : Coord(pts, i, a) < p }, { i \in S : Coord(pts, i, a) >= p } >>
  ELSE << le, S \ le >>
MustClose(pts, S, leaf, asBuilt) == Cardinality(S) <= leaf \/ (~asBuilt /\ AllEqual(pts, S))

D2(pts, i, q) == LET RECURSIVE Sm(_) Sm(a) == IF a > Len(q) THEN 0 ELSE (pts[i + 1][a] - q[a]) * (pts[i + 1][a] - q[a]) + Sm(a + 1) IN Sm(1)
(* what a k-nearest answer must be: min(k, n) distinct indices, distances non-decreasing, and they are the k smallest *)
KnnOk(pts, q, k, ret) ==
  LET n == Len(pts)
      m == IF k < n THEN k ELSE n
      ds == [j \in 1..Len(ret) |-> D2(pts, ret[j], q)]
  IN /\ Len(ret) = m /\ Cardinality({ ret[j] : j \in 1..Len(ret) }) = m /\ \A j \in 1..Len(ret) : ret[j] \in 0..(n - 1)
     /\ \A j \in 1..(Len(ret) - 1) : ds[j] <= ds[j + 1]
     /\ \A i \in (0..(n - 1)) \ { ret[j] : j \in 1..Len(ret) } : \A j \in 1..Len(ret) : ds[j] <= D2(pts, i, q)
RadiusOk(pts, q, m, ret) ==      \* radius^2 = m + 1/2: never on a point
  /\ { ret[j] : j \in 1..Len(ret) } = { i \in 0..(Len(pts) - 1) : D2(pts, i, q) <= m } /\ Len(ret) = Cardinality({ ret[j] : j \in 1..Len(ret) })
=============================================================================
