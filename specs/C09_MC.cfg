CONSTANTS
  N = 3
  MaxW = 2
SPECIFICATION Spec
INVARIANT Correct
INVARIANT SettledAreFinal
PROPERTY Terminates
CHECK_DEADLOCK FALSE
