------------------------------ MODULE C01_Trace ------------------------------
(* Judges recorded connectivity answers of a real SurfaceMesh against MeshCore.            *)
(* Case:  given = [nv, F (face list), E (mesh.edges as built), sorted (0/1), family]        *)
(* Event: [op, args (sequence of argument tuples / ids), ret (one answer per argument),     *)
(*         exc ("" or the exception class)];  None is -1, booleans are 0/1.                  *)
(* Abstract state: [D (derived once), ok (precondition), dir (rotational direction the       *)
(* library has shown so far: "" | "fwd" | "rev")].                                           *)
EXTENDS TraceKit, MeshCore
VARIABLES ci, ei, st, nj, ns, ne

InitState(c) ==
  LET D == Derive(c.given.F, c.given.nv, c.given.E)
  IN [D |-> D, ok |-> IsManifold(D) /\ EdgesAreSides(D), dir |-> "", sorted |-> c.given.sorted = 1,
      fam |-> c.given.family]

B(x) == IF x THEN 1 ELSE 0
All(args, ret, P(_, _)) == Len(ret) = Len(args) /\ \A k \in 1..Len(args) : P(args[k], ret[k])

(* ---- rings: observed ring vs canonical ring, direction tracked across the whole case ---- *)
RingVerdicts(D, args, ret, Canon(_)) == [k \in 1..Len(args) |-> RingDir(ret[k], Canon(args[k]))]
DirsOf(vs) == { vs[k] : k \in 1..Len(vs) } \ {"amb"}
JudgeRing(s, e, Canon(_), name) ==
  IF Len(e.ret) # Len(e.args) THEN Bad(name \o "_answers_every_vertex", s.fam, "", s)
  ELSE IF ~s.sorted
  THEN Check(<< << \A k \in 1..Len(e.args) : SeqSet(e.ret[k]) = SeqSet(Canon(e.args[k]))
                                             /\ Len(e.ret[k]) = Len(Canon(e.args[k])),
                   name \o "_is_the_neighbourhood" >> >>, s.fam \o "/unsorted", "", s)
  ELSE LET vs == RingVerdicts(s.D, e.args, e.ret, Canon)
           ds == DirsOf(vs)
           all == ds \cup (IF s.dir = "" THEN {} ELSE {s.dir})
           nd == IF Cardinality(all) = 1 THEN CHOOSE d \in all : TRUE ELSE s.dir
       IN Check(<< << "bad" \notin ds, name \o "_in_rotational_order" >>,
                   << Cardinality(all) <= 1, "rotational_direction_consistent" >> >>,
                s.fam, "", [s EXCEPT !.dir = nd])

CRing(D, v) == RingOf(D, v)
FRing(D, v) == LET r == RingOf(D, v) IN [k \in 1..Len(r) |-> Cn(D, r[k]).f]
ERing(D, v) == LET r == VRingOf(D, v) IN [k \in 1..Len(r) |-> EdgeId(D, v, r[k])]

Judge(c, s, e) ==
  LET D == s.D
      op == e.op
      fam == s.fam
      simple(P(_, _), clause) == Check(<< << e.exc = "", "query_succeeds" >>, << All(e.args, e.ret, P), clause >> >>, fam, "", s)
  IN
  IF ~s.ok THEN Skip(s)
  ELSE IF e.exc # "" THEN Bad("query_succeeds", fam, e.exc, s)
  ELSE
  CASE op \in {"clear", "clear_boundary_data"} -> Ok(s)
    [] op = "next_corner"      -> simple(LAMBDA a, r : r = NextC(D, a), "next_corner_in_face")
    [] op = "previous_corner"  -> simple(LAMBDA a, r : r = PrevC(D, a), "previous_corner_in_face")
    [] op = "opposite_corner"  -> simple(LAMBDA a, r : r = OppC(D, a), "opposite_corner_across_edge")
    [] op = "corner_to_face"   -> simple(LAMBDA a, r : r = Cn(D, a).f, "corner_belongs_to_face")
    [] op = "corner_to_half_edge" -> simple(LAMBDA a, r : r = <<Cn(D, a).v, Cn(D, a).nx>>, "corner_half_edge")
    [] op = "half_edge_to_corner" -> simple(LAMBDA a, r : r = HE2C(D, a[1], a[2]), "half_edge_corner")
    [] op = "direct_face"      -> simple(LAMBDA a, r : r = DirectFace(D, a[1], a[2]), "face_left_of_half_edge")
    [] op = "direct_face_inds" -> simple(LAMBDA a, r : r = DirectFaceInds(D, a[1], a[2]), "face_left_of_half_edge_with_indices")
    [] op = "edge_to_faces"    -> simple(LAMBDA a, r : r = <<DirectFace(D, a[1], a[2]), DirectFace(D, a[2], a[1])>>, "faces_on_both_sides")
    [] op = "opposite_face"    -> simple(LAMBDA a, r : r = OppositeFace(D, a[1], a[2], a[3]), "face_across_edge")
    [] op = "opposite_face_inds" ->
         simple(LAMBDA a, r : LET g == OppositeFace(D, a[1], a[2], a[3]) IN
                   IF g = None THEN r[1] = None
                   ELSE r[1] = g /\ At0(D, g, r[2]) = a[1] /\ At0(D, g, r[3]) = a[2], "face_across_edge_with_indices")
    [] op = "common_edge"      -> simple(LAMBDA a, r : IF SharedEdges(D, a[1], a[2]) = {} THEN r = <<None, None>>
                                                      ELSE r \in SharedEdges(D, a[1], a[2]), "edge_between_two_faces")
    [] op = "edge_id"          -> simple(LAMBDA a, r : r = EdgeId(D, a[1], a[2]), "edge_identifier")
    [] op = "face_id"          -> simple(LAMBDA a, r : FaceIdOk(D, a, r), "face_identifier")
    [] op = "other_edge_end"   -> simple(LAMBDA a, r : LET ed == D.E[a[1] + 1] IN
                                     r = IF a[2] = ed[1] THEN ed[2] ELSE IF a[2] = ed[2] THEN ed[1] ELSE None, "other_end_of_edge")
    [] op = "is_edge_on_border" -> simple(LAMBDA a, r : r = B(IsBorderEdge(D, a[1], a[2])), "edge_border_classification")
    [] op = "is_vertex_on_border" -> simple(LAMBDA a, r : r = B(a \in BorderVerts(D)), "vertex_border_classification")
    [] op = "vertex_to_corner_in_face" -> simple(LAMBDA a, r : r = CornerOfVF(D, a[1], a[2]), "corner_of_vertex_in_face")
    [] op = "in_face_index"    -> simple(LAMBDA a, r : r = IndexInFace(D, a[1], a[2]), "index_of_vertex_in_face")
    [] op = "face_to_vertices" -> simple(LAMBDA a, r : r = D.F[a + 1], "face_vertices")
    [] op = "face_to_edges"    -> simple(LAMBDA a, r : r = [i \in 1..Len(D.F[a + 1]) |-> EdgeId(D, D.F[a + 1][i], D.F[a + 1][(i % Len(D.F[a + 1])) + 1])], "face_edges")
    [] op = "face_to_corners"  -> simple(LAMBDA a, r : r = [i \in 1..Len(D.F[a + 1]) |-> D.off[a + 1] + i - 1], "face_corners")
    [] op = "face_to_first_corner" -> simple(LAMBDA a, r : r = D.off[a + 1], "first_corner_of_face")
    [] op = "face_to_faces"    -> simple(LAMBDA a, r : SeqSet(r) = FaceNeighbours(D, a)
                                     /\ Len(r) = Cardinality({ h \in D.H : h.f = a /\ HasHE(D, h.nx, h.v) }), "faces_around_face")
    [] op = "vertex_to_corners"  -> JudgeRing(s, e, LAMBDA v : CRing(D, v), "corners_around_vertex")
    [] op = "vertex_to_vertices" -> JudgeRing(s, e, LAMBDA v : VRingOf(D, v), "vertices_around_vertex")
    [] op = "vertex_to_faces"    -> JudgeRing(s, e, LAMBDA v : FRing(D, v), "faces_around_vertex")
    [] op = "vertex_to_edges"    -> JudgeRing(s, e, LAMBDA v : ERing(D, v), "edges_around_vertex")
    [] op \in {"boundary_edges", "interior_edges"} ->
         LET want == { j \in 0..(Len(D.E) - 1) : IsBorderEdge(D, D.E[j + 1][1], D.E[j + 1][2]) = (op = "boundary_edges") }
         IN Check(<< << SeqSet(e.ret) = want /\ Len(e.ret) = Cardinality(want), op \o "_are_exactly_those" >> >>, fam, "", s)
    [] op \in {"boundary_vertices", "interior_vertices"} ->
         LET want == { v \in 0..(D.nv - 1) : (v \in BorderVerts(D)) = (op = "boundary_vertices") }
         IN Check(<< << SeqSet(e.ret) = want /\ Len(e.ret) = Cardinality(want), op \o "_are_exactly_those" >> >>, fam, "", s)
    [] op = "is_triangular" -> Check(<< << e.ret = B(\A f \in 1..D.nf : Len(D.F[f]) = 3), "all_faces_triangles" >> >>, fam, "", s)
    [] op = "is_quad"       -> Check(<< << e.ret = B(\A f \in 1..D.nf : Len(D.F[f]) = 4), "all_faces_quads" >> >>, fam, "", s)
    [] OTHER -> Bad("unknown_operation", op, "", s)

W == INSTANCE Walker
Spec == W!Spec
=============================================================================
