--------------------------- MODULE C05_Attributes ---------------------------
(* Attributes of a DataContainer, sparse (dict) and dense (numpy) storage in lock-step.   *)
(*                                                                                        *)
(* Values are sequences of ATOMS; an atom is a string in Python's == normal form           *)
(* ("1" for True, 1, 1.0, (1+0j); "2.5"; "1+2j"; "s:txt" for the string txt), so equality  *)
(* of atoms is Python equality of the values.  A scalar attribute value is a 1-sequence.   *)
(*                                                                                        *)
(* Abstract state  a = [size, at, k, dflt, vs, vd, taint]                                  *)
(*   size   number of elements of the container                                            *)
(*   at, k  attribute type ("bool","int","float","complex","str") and arity                *)
(*   dflt   default value (k atoms)                                                        *)
(*   vs,vd  what the sparse / the dense attribute must read at 0..size-1 (1-based seqs)    *)
(*   taint  indices where the two storages are allowed to differ (see InPlace)             *)
(*   wr     indices written since creation / the last clear (only used to classify)        *)
EXTENDS Naturals, Integers, Sequences, FiniteSets, TLC

Types == {"bool", "int", "float", "complex", "str"}
ZeroAtom(at) == IF at = "str" THEN "s:" ELSE "0"
TypeDefault(at, k) == [j \in 1..k |-> ZeroAtom(at)]

(* bool -> int -> float widening only *)
Castable(vt, at) == vt = at \/ <<vt, at>> \in {<<"bool", "int">>, <<"bool", "float">>, <<"int", "float">>}

(* What a write of a value of element type vt and shape va (0 = scalar, n = sequence of n) *)
(* must answer on an attribute (at, k):  "ok" | "size" | "type"                             *)
SetVerdict(at, k, vt, va) ==
  IF k = 1 THEN (IF va = 0 /\ vt \in Types /\ Castable(vt, at) THEN "ok" ELSE "type")
  ELSE IF va = 0 THEN "type"                   \* a scalar is not a vector
  ELSE IF va # k THEN "size"
  ELSE IF vt \in Types /\ Castable(vt, at) THEN "ok" ELSE "type"

Fill(n, v) == [j \in 1..n |-> v]
New(size, at, k, dflt) == [size |-> size, at |-> at, k |-> k, dflt |-> dflt,
                           vs |-> Fill(size, dflt), vd |-> Fill(size, dflt), taint |-> {}, wr |-> {}]

InRange(a, i) == i \in 0..(a.size - 1)

DoSet(a, i, v) ==       \* accepted write at an in-range index (0-based i)
  [a EXCEPT !.vs[i + 1] = v, !.vd[i + 1] = v, !.taint = a.taint \ {i}, !.wr = a.wr \cup {i}]
DoGrow(a, n) == [a EXCEPT !.size = a.size + n, !.vs = a.vs \o Fill(n, a.dflt), !.vd = a.vd \o Fill(n, a.dflt)]
DoClear(a)   == [a EXCEPT !.vs = Fill(a.size, a.dflt), !.vd = Fill(a.size, a.dflt), !.taint = {}, !.wr = {}]

(* Mutating, in place, component 1 of the object obtained by reading entry i: the entry     *)
(* itself may or may not follow (a storage may hand out a view or a copy); no OTHER entry   *)
(* may change.  cs / cd tell whether the sparse / dense entry followed.                     *)
Poke(v, x) == [v EXCEPT ![1] = x]
DoInPlace(a, i, x, cs, cd) ==
  [a EXCEPT !.vs[i + 1] = IF cs THEN Poke(a.vs[i + 1], x) ELSE a.vs[i + 1],
            !.vd[i + 1] = IF cd THEN Poke(a.vd[i + 1], x) ELSE a.vd[i + 1],
            !.taint = IF cs = cd THEN a.taint ELSE a.taint \cup {i}]

Agree(a) == \A i \in 0..(a.size - 1) : i \in a.taint \/ a.vs[i + 1] = a.vd[i + 1]
RECURSIVE Flat(_)
Flat(vals) == IF vals = <<>> THEN <<>> ELSE vals[1] \o Flat(Tail(vals))
=============================================================================
