CONSTANTS
  Surface = "tetrahedron"
  MaxS = 4
  MaxT = 3
SPECIFICATION Spec
INVARIANT CutIsADisk
INVARIANT DualTreeSpans
CHECK_DEADLOCK FALSE
