------------------------------- MODULE Walker -------------------------------
(* The trace walk shared by every validator:  W == INSTANCE Walker WITH Judge <- .., InitState <- ..  *)
(*   InitState(case)          abstract state before the first event of a case                         *)
(*   Judge(case, state, ev)   a verdict record Ok/Skip/Bad (TraceKit) with the next abstract state    *)
EXTENDS TraceKit
CONSTANTS Judge(_, _, _), InitState(_)
VARIABLES ci, ei, st, nj, ns, ne
vars == <<ci, ei, st, nj, ns, ne>>

Init == /\ ci = 1 /\ ei = 0 /\ nj = 0 /\ ns = 0 /\ ne = 0
        /\ st = IF NCases = 0 THEN <<>> ELSE InitState(Cases[1])
Step == /\ ci <= NCases /\ ei < Len(Cases[ci].events)
        /\ LET c == Cases[ci]
               e == c.events[ei + 1]
               r == Judge(c, st, e)
           IN /\ (IF r.ok THEN TRUE ELSE Mismatch(c.id, ei + 1, e.op, r.clause, r.cls, r.detail))
              /\ (IF r.skip /\ ei = 0 THEN PrintT(ToJson([k |-> "SKIP", case |-> c.id])) ELSE TRUE)
              /\ st' = r.next
              /\ nj' = IF r.skip THEN nj ELSE nj + 1
              /\ ns' = IF r.skip THEN ns + 1 ELSE ns
        /\ ei' = ei + 1 /\ ne' = ne + 1 /\ ci' = ci
NextCase == /\ ci <= NCases /\ ei = Len(Cases[ci].events)
            /\ ci' = ci + 1 /\ ei' = 0 /\ UNCHANGED <<nj, ns, ne>>
            /\ st' = IF ci + 1 <= NCases THEN InitState(Cases[ci + 1]) ELSE <<>>
            /\ (IF ci + 1 <= NCases THEN TRUE ELSE Done(NCases, ne, nj, ns))
Next == Step \/ NextCase
Spec == Init /\ [][Next]_vars
=============================================================================
