------------------------------- MODULE C04_MC -------------------------------
(* The reference codec is lossless within each format's vocabulary: for every mesh of a small    *)
(* family (point cloud, polyline, triangles, quad, mixed, pentagon, tetrahedra, hexahedron; several   *)
(* assignments of coordinate ids) and every text format  Read_f(Write_f(Project_f(m))) = Project_f(m),  *)
(* and the class implied by the projected content is as expected.  Each (mesh, format) is one initial    *)
(* state; the written token lines are emitted so that the real library can be asked to LOAD them.         *)
EXTENDS C04_Codec, Json
CONSTANTS EmitOn, NIds
VARIABLES m, f
Pt(a, b, c) == <<a, b, c>>
Shapes == {
  [E |-> <<>>, F |-> <<>>, C |-> <<>>, nv |-> 3],
  [E |-> << <<0, 1>>, <<1, 2>> >>, F |-> <<>>, C |-> <<>>, nv |-> 3],
  [E |-> << <<0, 1>>, <<0, 2>>, <<1, 2>>, <<1, 3>>, <<2, 3>> >>, F |-> << <<0, 1, 2>>, <<2, 1, 3>> >>, C |-> <<>>, nv |-> 4],
  [E |-> << <<0, 1>>, <<1, 2>>, <<2, 3>>, <<0, 3>> >>, F |-> << <<0, 1, 2, 3>> >>, C |-> <<>>, nv |-> 4],
  [E |-> << <<0, 1>>, <<1, 2>>, <<2, 3>>, <<0, 3>>, <<1, 4>>, <<2, 4>> >>, F |-> << <<0, 1, 2, 3>>, <<1, 4, 2>> >>, C |-> <<>>, nv |-> 5],
  [E |-> << <<0, 1>>, <<1, 2>>, <<2, 3>>, <<3, 4>>, <<0, 4>> >>, F |-> << <<0, 1, 2, 3, 4>> >>, C |-> <<>>, nv |-> 5],
  [E |-> <<>>, F |-> <<>>, C |-> << <<0, 1, 2, 3>> >>, nv |-> 4],
  [E |-> <<>>, F |-> <<>>, C |-> << <<0, 1, 2, 3>>, <<1, 2, 3, 4>> >>, nv |-> 5],
  [E |-> <<>>, F |-> <<>>, C |-> << <<0, 1, 2, 3, 4, 5, 6, 7>> >>, nv |-> 8] }
Mesh(s, o) == [V |-> [i \in 1..s.nv |-> Pt(((3 * i + o) % NIds) + 1, ((3 * i + o + 1) % NIds) + 1, ((3 * i + o + 2) % NIds) + 1)],
               E |-> s.E, F |-> s.F, C |-> s.C]
Init == \E s \in Shapes, o \in 0..2 : m = Mesh(s, o) /\ f \in Formats
Next == UNCHANGED <<m, f>>
Spec == Init /\ [][Next]_<<m, f>>
Lossless == Read(f, Write(f, Project(f, m))) = Project(f, m)
Emit == EmitOn => PrintT(ToJson([k |-> "W", f |-> f, m |-> m, lines |-> Write(f, Project(f, m)), want |-> Project(f, m)]))
=============================================================================
