------------------------------ MODULE C16_Trace ------------------------------
(* Judges real SingularityCutter runs.  given = [n, F, E, P (integer points), family]             *)
(* event "cut" = [S, with_features, T (edge ids the dual tree must not cross), DT (edge ids it crossed),  *)
(*                cut (reported cut edge ids), adj (cut adjacency pairs), oF, onv, oP, ref (pairs <<cut vertex, original vertex>>), exc] *)
EXTENDS TraceKit, C16_Cutting
VARIABLES ci, ei, st, nj, ns, ne
InitState(c) == LET D == Derive(c.given.F, c.given.n, c.given.E)
                IN [g |-> c.given, D |-> D,
                    ok |-> IsManifold(D) /\ EdgesAreSides(D) /\ NComponents(D) = 1 /\ \A f \in 1..D.nf : Len(D.F[f]) = 3]
Judge(c, s, e) ==
  LET D == s.D
      S == SeqToSet(e.S)
      cut == SeqToSet(e.cut)
      uncutCase == IsSphere(D) /\ Cardinality(S) < 2
      slit == IsClosed(D) /\ Cardinality(cut) = 1
      cls == s.g.family \o (IF e.with_features = 1 THEN "/features" ELSE "") \o (IF slit THEN "/single_edge_cut_on_closed_surface" ELSE "")
      ref == [u \in { p[1] : p \in SeqToSet(e.ref) } |-> (CHOOSE p \in SeqToSet(e.ref) : p[1] = u)[2]]
      Dc == Derive(e.oF, e.onv, <<>>)
      corner(f, i) == D.off[f] + i - 1
      classes == CutClasses(D, cut)
  IN
  IF ~s.ok THEN Skip(s)
  ELSE IF e.exc # "" THEN Bad("cutting_succeeds", cls, e.exc, s)
  ELSE Check(<<
     << Len(e.oF) = D.nf /\ \A f \in 1..D.nf : Len(e.oF[f]) = 3 /\ \A i \in 1..3 : e.oF[f][i] \in DOMAIN ref /\ ref[e.oF[f][i]] = D.F[f][i],
        "same_faces_in_the_same_order_and_vertex_map_consistent_face_by_face" >>,
     << \A f \in 1..D.nf : \A i \in 1..3 : e.oP[e.oF[f][i] + 1] = s.g.P[D.F[f][i] + 1], "same_corner_positions" >>,
     << { p[2] : p \in SeqToSet(e.ref) } = UsedVerts(D) /\ { p[1] : p \in SeqToSet(e.ref) } = 0..(e.onv - 1), "vertex_map_is_onto" >>,
     << \A f, g \in 1..D.nf : \A i, j \in 1..3 :
           (e.oF[f][i] = e.oF[g][j]) = (ClassOf(classes, corner(f, i)) = ClassOf(classes, corner(g, j))), "only_the_reported_cut_edges_were_opened" >>,
     << IsDualSpanningTree(D, SeqToSet(e.T), SeqToSet(e.DT)), "dual_tree_spans_the_faces_without_crossing_the_singularity_tree" >>,
     << cut = CutOf(D, S, SeqToSet(e.DT)), "cut_edges_are_the_pruned_complement_of_the_dual_tree" >>,
     << { {p[1], p[2]} : p \in SeqToSet(e.adj) } = { {EdgeV(D, x)[1], EdgeV(D, x)[2]} : x \in cut }, "cut_adjacency_lists_the_cut_edges" >>,
     << IF uncutCase THEN cut = {} ELSE IsManifold(Dc) /\ IsDisk(Dc), "cut_mesh_is_a_topological_disk" >>,
     << uncutCase \/ SingularOnBorder(D, S, Dc, cut), "every_singular_vertex_has_a_copy_on_the_border" >>,
     << uncutCase \/ (CutGraphConnected(D, cut) /\ BorderE(D) \subseteq cut), "cut_graph_connected_and_contains_the_border" >> >>, cls, "", s)
W0 == INSTANCE Walker
Spec == W0!Spec
=============================================================================
