CONSTANTS
  NV = 5
  MaxF = 4
  MaxAr = 4
  EmitOn = TRUE
SPECIFICATION Spec
INVARIANT OracleSane
INVARIANT Emit
CHECK_DEADLOCK FALSE
