----------------------------- MODULE Rotations -----------------------------
(* Rotations with exact rational entries, shared by C06 (mesh transforms) and C12 (primitives) *)
EXTENDS Rat
(* rotations with exact entries: quarter turns about the axes and a 3-4-5 turn about z, each with its inverse *)
Q(a, b) == <<a, b>>
RotTable ==
  << << <<R(1), R(0), R(0)>>, <<R(0), R(0), R(-1)>>, <<R(0), R(1), R(0)>> >>,       \* 1: +90 about x
     << <<R(1), R(0), R(0)>>, <<R(0), R(0), R(1)>>, <<R(0), R(-1), R(0)>> >>,       \* 2: -90 about x
     << <<R(0), R(0), R(1)>>, <<R(0), R(1), R(0)>>, <<R(-1), R(0), R(0)>> >>,       \* 3: +90 about y
     << <<R(0), R(0), R(-1)>>, <<R(0), R(1), R(0)>>, <<R(1), R(0), R(0)>> >>,       \* 4: -90 about y
     << <<R(0), R(-1), R(0)>>, <<R(1), R(0), R(0)>>, <<R(0), R(0), R(1)>> >>,       \* 5: +90 about z
     << <<R(0), R(1), R(0)>>, <<R(-1), R(0), R(0)>>, <<R(0), R(0), R(1)>> >>,       \* 6: -90 about z
     << <<Q(3, 5), Q(-4, 5), R(0)>>, <<Q(4, 5), Q(3, 5), R(0)>>, <<R(0), R(0), R(1)>> >>,   \* 7: atan(4/3) about z
     << <<Q(3, 5), Q(4, 5), R(0)>>, <<Q(-4, 5), Q(3, 5), R(0)>>, <<R(0), R(0), R(1)>> >> >> \* 8: its inverse
RotInv(k) == IF k % 2 = 1 THEN k + 1 ELSE k - 1

RotAxis(k) == IF k \in {1, 2} THEN <<R(1), R(0), R(0)>> ELSE IF k \in {3, 4} THEN <<R(0), R(1), R(0)>> ELSE <<R(0), R(0), R(1)>>
MatMul(M, N) == [i \in 1..3 |-> [j \in 1..3 |-> VDot(M[i], <<N[1][j], N[2][j], N[3][j]>>)]]
Transpose(M) == [i \in 1..3 |-> [j \in 1..3 |-> M[j][i]]]
Id3 == << <<R(1), R(0), R(0)>>, <<R(0), R(1), R(0)>>, <<R(0), R(0), R(1)>> >>
(* the laws the statement names, checked by TLC when the module is loaded: every table entry is an isometry,  *)
(* fixes its axis, its table inverse undoes it, and quarter turns compose additively (four of them = identity) *)
ASSUME \A k \in 1..8 : /\ MatMul(RotTable[k], Transpose(RotTable[k])) = Id3
                        /\ MatVec(RotTable[k], RotAxis(k)) = RotAxis(k)
                        /\ MatMul(RotTable[k], RotTable[RotInv(k)]) = Id3
ASSUME \A k \in 1..6 : MatMul(MatMul(RotTable[k], RotTable[k]), MatMul(RotTable[k], RotTable[k])) = Id3
=============================================================================
