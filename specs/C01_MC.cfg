CONSTANTS
  AsBuilt = {}
  D = 8
  EmitOn = TRUE
SPECIFICATION Spec
INVARIANT NoSpuriousFailure
CONSTRAINT Emit
VIEW View
CHECK_DEADLOCK FALSE
