CONSTANTS
  AsBuilt = {}
  MaxMesh = 3
  D = 4
  EmitOn = TRUE
SPECIFICATION Spec
PROPERTY Refines
CONSTRAINT Emit
VIEW View
CHECK_DEADLOCK FALSE
