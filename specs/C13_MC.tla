------------------------------ MODULE C13_MC ------------------------------
(* The editing block of SurfaceSubdivision as a state machine over SHARED CONTAINERS.        *)
(* A mesh object is a record of references to containers (faces, corners) plus its own lazy    *)
(* connectivity cache; `cont[r]` is the content (a version number) of container r.             *)
(*   Enter     the editor wraps the very containers of the input and clears the corner          *)
(*             container it shares with it                                                       *)
(*   EditInPlace   triangulate_face / split_face_as_fan / triangulate: update faces in place     *)
(*   Replace       loop_subdivision / 3quads / 6: the editor switches to brand-new containers    *)
(*   Exit      prepare(): corners regenerated in the editor's corner container; result = a new   *)
(*             mesh object on the editor's containers; the input object adopts those containers  *)
(*             and drops its cache (AsBuilt "no_sync_on_exit": the pinned source did not)         *)
(* InputIntact (at Exit): the object passed in is unchanged or equal to the result - faces,      *)
(* corners, and a cache that describes its faces - never half-updated.                           *)
EXTENDS Naturals, Sequences, FiniteSets, TLC, Json
CONSTANTS AsBuilt, D, EmitOn
VARIABLES cont, input, editor, result, phase, cached, hist
vars == <<cont, input, editor, result, phase, cached, hist>>

NoneRef == 0
Log(a) == hist' = Append(hist, a)
Init == /\ cont = <<1, 1>>            \* container 1: faces (version 1), container 2: corners (valid for faces v1)
        /\ input = [faces |-> 1, corners |-> 2] /\ editor = [faces |-> NoneRef, corners |-> NoneRef]
        /\ result = [faces |-> NoneRef, corners |-> NoneRef]
        /\ phase = "fresh" /\ cached = 0 /\ hist = <<>>
(* corners value: 0 = empty, k = generated for faces version k; cached: 0 = no cache, k = cache built from faces version k *)
QueryBefore == /\ phase = "fresh" /\ cached' = cont[input.faces] /\ UNCHANGED <<cont, input, editor, result, phase>>
               /\ Log([op |-> "query_before"])
Enter == /\ phase = "fresh" /\ phase' = "editing"
         /\ editor' = input /\ cont' = [cont EXCEPT ![input.corners] = 0]
         /\ UNCHANGED <<input, result, cached>> /\ Log([op |-> "enter"])
EditInPlace(op) == /\ phase = "editing" /\ cont' = [cont EXCEPT ![editor.faces] = @ + 1]
                   /\ UNCHANGED <<input, editor, result, phase, cached>> /\ Log([op |-> op])
Replace(op) == /\ phase = "editing"
               /\ cont' = cont \o <<cont[editor.faces] + 1, 0>>
               /\ editor' = [faces |-> Len(cont) + 1, corners |-> Len(cont) + 2]
               /\ UNCHANGED <<input, result, phase, cached>> /\ Log([op |-> op])
Exit == /\ phase = "editing" /\ phase' = "done"
        /\ cont' = [cont EXCEPT ![editor.corners] = cont[editor.faces]]
        /\ result' = editor /\ UNCHANGED editor /\ Log([op |-> "exit"])
        /\ IF "no_sync_on_exit" \in AsBuilt THEN UNCHANGED <<input, cached>>
           ELSE input' = editor /\ cached' = 0
Next == /\ Len(hist) < D
        /\ \/ QueryBefore \/ Enter \/ Exit
           \/ \E op \in {"triangulate_face", "split_face_as_fan", "triangulate"} : EditInPlace(op)
           \/ \E op \in {"loop_subdivision", "subdivide_triangles_3quads", "subdivide_triangles_6"} : Replace(op)
Spec == Init /\ [][Next]_vars

Coherent(m, c) == cont[m.corners] = cont[m.faces] /\ (c = 0 \/ c = cont[m.faces])
InputIntact == phase = "done" =>
   /\ Coherent(input, cached)                                       \* never half-updated
   /\ (cont[input.faces] = 1 \/ cont[input.faces] = cont[result.faces])   \* unchanged, or equal to the result
ResultValid == phase = "done" => cont[result.corners] = cont[result.faces]
View == <<[r \in 1..Len(cont) |-> cont[r]], input, editor, result, phase, cached>>
Emit == EmitOn => PrintT(ToJson([k |-> "H", h |-> hist, done |-> phase = "done"]))
=============================================================================
