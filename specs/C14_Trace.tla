------------------------------ MODULE C14_Trace ------------------------------
(* Judges outputs of the real procedural generators against the table of C14_Procedural.            *)
(* event = [gen, p (parameters), cls, nv, F, ncells, ne, m (one exact rational measure per vertex that    *)
(*          must equal p.want_m - squared distance to the named centre / axis / torus circle - or <<>>),   *)
(*          pos (integer positions, or <<>>), fattrs (names of face attributes), exc]                       *)
EXTENDS TraceKit, C14_Procedural
VARIABLES ci, ei, st, nj, ns, ne
InitState(c) == [x |-> 0]
V3(a, b) == << a[1] + b[1], a[2] + b[2], a[3] + b[3] >>
M3(a, b) == << a[1] - b[1], a[2] - b[2], a[3] - b[3] >>
ExpPos(gen, p) ==
  CASE gen = "triangle" -> <<p.P0, p.P1, p.P2>>
    [] gen = "quad" -> <<p.P0, p.P1, M3(V3(p.P1, p.P2), p.P0), p.P2>>
    [] gen = "tetrahedron" -> <<p.P0, p.P1, p.P2, p.P3>>
    [] gen = "hexahedron" -> p.pts
    [] gen = "hexahedron_4pts" -> LET X == M3(p.P1, p.P0)
                                      Y == M3(p.P2, p.P0)
                                  IN <<p.P0, V3(p.P0, X), V3(V3(p.P0, X), Y), V3(p.P0, Y), p.P3, V3(p.P3, X), V3(V3(p.P3, X), Y), V3(p.P3, Y)>>
    [] OTHER -> <<>>
Judge(c, s, e) ==
  LET w == Want(e.gen, e.p)
      D == Derive(e.F, e.nv, <<>>)
      cls == e.gen \o "/" \o e.pcls
  IN
  IF e.exc # "" THEN Bad("generator_accepts_admissible_parameters", cls, e.exc, s)
  ELSE IF e.gen \in {"chain_of_vertices", "vector_field"} THEN
       Check(<< << e.cls = "PolyLine" /\ e.nv = e.p.nv /\ e.ne = e.p.ne, "documented_element_counts" >>,
                << e.pos = e.p.pos, "vertices_on_the_requested_points" >>,
                << e.E = e.p.E, "edges_as_documented" >> >>, cls, "", s)
  ELSE Check(<< << e.cls = w.cls, "class_as_named_by_the_volume_switch" >>,
                << w.cls # "VolumeMesh" \/ e.ncells = 1, "volume_switch_gives_a_cell" >> >>
             \o Topology(D, w)
             \o << << e.m = <<>> \/ (IF e.p.want_m = <<0, 0>>
                                     THEN \A i \in 1..Len(e.m) : e.m[i] = <<1, 1>>           \* measures relative to the first vertex: all at one distance from the centre
                                     ELSE \A i \in 1..Len(e.m) : e.m[i] = e.p.want_m), "vertices_on_the_named_surface_at_the_requested_radius_and_centre" >>,
                   << e.derr <= 2, "centre_realises_the_requested_angle_defect" >>,        \* rings only: micro-radians off the (clamped) request; the bisection stops at 1e-6
                   << ExpPos(e.gen, e.p) = <<>> \/ e.pos = ExpPos(e.gen, e.p), "vertices_on_the_requested_corners" >>,
                   << e.gen # "axis_aligned_cube" \/ (Len(e.pos) = 8 /\ SeqToSet(e.pos) = { <<a, b, cc>> : a \in {-1, 1}, b \in {-1, 1}, cc \in {-1, 1} }),
                      "corners_of_the_unit_cube_centred_at_the_origin" >>,
                   << e.box = <<>> \/ \A i \in 1..Len(e.box) : e.box[i][3] = <<0, 1>> /\ \A k \in 1..2 :
                          e.box[i][k][2] > 0 /\ e.box[i][k][1] >= 0 /\ e.box[i][k][1] <= e.box[i][k][2], "vertices_in_the_unit_square" >>,
                   << e.p.colored = 0 \/ e.p.volume = 1 \/ "color" \in SeqToSet(e.fattrs), "colored_switch_gives_a_color_attribute" >> >>, cls, "", s)
W0 == INSTANCE Walker
Spec == W0!Spec
=============================================================================
