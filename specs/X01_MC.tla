------------------------------- MODULE X01_MC -------------------------------
(* Laws of the sequence helpers for every sequence of length <= MaxLen over three letters and every shift, and   *)
(* of the interpolation operators on small lattice meshes for every 0/1/2-valued attribute.                         *)
EXTENDS X01_Aux
CONSTANTS MaxLen, Mode
VARIABLES L, k, va
Letters == {"a", "b", "c"}
Grid2 == [P |-> << <<0,0,0>>, <<0,1,0>>, <<0,2,0>>, <<1,0,0>>, <<1,1,0>>, <<1,2,0>>, <<2,0,0>>, <<2,1,0>>, <<2,2,0>> >>,
          F |-> << <<0,3,4>>, <<0,4,1>>, <<1,4,5>>, <<1,5,2>>, <<3,6,7>>, <<3,7,4>>, <<4,7,8>>, <<4,8,5>> >>, C |-> << >>, E |-> << >>]
D2 == Derive(Grid2.F, Len(Grid2.P), << >>)
Init == IF Mode = "iterators"
        THEN L \in UNION { [1..m -> Letters] : m \in 0..MaxLen } /\ k \in -5..5 /\ va = [i \in 1..9 |-> R(0)]
        ELSE L = << >> /\ k = 0 /\ va \in [1..9 -> {R(0), R(3)}]
Next == UNCHANGED << L, k, va >>
Spec == Init /\ [][Next]_<< L, k, va >>
n == Len(L)
IterLaws ==
  /\ Len(CyclicPairs(L)) = n /\ \A i \in 1..n : CyclicPairs(L)[i][2] = CyclicPairs(L)[(i % n) + 1][1]          \* the pairs chain around the cycle
  /\ \A i \in 1..n : CyclicTriplets(L)[i][2] = L[i] /\ << CyclicTriplets(L)[i][2], CyclicTriplets(L)[i][3] >> = CyclicPairs(L)[i]
  /\ ConsecutivePairs(L) = SubSeq(CyclicPairs(L), 1, IF n = 0 THEN 0 ELSE n - 1)
  /\ \A i \in 1..Len(ConsecutiveTriplets(L)) : ConsecutiveTriplets(L)[i] = CyclicTriplets(L)[i + 1]
  /\ (n > 0 => Offset(L, 0) = L /\ Offset(L, n) = L /\ Offset(Offset(L, k), -k) = L /\ Offset(Offset(L, k), 2) = Offset(L, k + 2))
  /\ \A j \in 1..n : CyclicPermutations(L)[j] = Offset(L, 1 - j) /\ [i \in 1..n |-> CyclicPermEnum(L)[j][i][2]] = CyclicPermutations(L)[j]
  /\ \A j \in 1..n : \A i \in 1..n : L[CyclicPermEnum(L)[j][i][1] + 1] = CyclicPermEnum(L)[j][i][2]
InterpLaws ==       \* scatter then average is the identity; means of a constant are that constant; sums are linear in the obvious way
  LET g == Grid2 IN
  /\ C2VUniform(g, D2, V2Corners(D2, va)) = va /\ C2VAngle(g, D2, V2Corners(D2, va)) = va
  /\ LET fa == V2FMean(g, va) IN C2FUniform(g, D2, F2Corners(D2, fa)) = fa /\ C2FAngle(g, D2, F2Corners(D2, fa)) = fa
  /\ ((\A v \in 1..9 : va[v] = va[1]) => \A f \in 1..8 : V2FMean(g, va)[f] = va[1])
  /\ RSum(C2FSum(g, D2, V2Corners(D2, va))) = RSum(C2VSum(g, D2, V2Corners(D2, va)))                               \* both count every corner once
  /\ \A f \in 1..8 : C2FUniform(g, D2, V2Corners(D2, va))[f] = V2FMean(g, va)[f]
=============================================================================
