------------------------------ MODULE C07_Trace ------------------------------
(* given = [P (integer points), F, E, C (as built), family].                                    *)
(* events: "transform" [mi (matrix index), s, t]  - the mesh is moved by mouette's own transform functions;  *)
(*         "quantity" [name, mode, zb, vals]        - one library quantity computed on the CURRENT geometry,   *)
(*                                                   projected to exact surrogates by the harness.             *)
EXTENDS TraceKit, C07_Quantities
VARIABLES ci, ei, st, nj, ns, ne
Mats == << << <<1,0,0>>, <<0,1,0>>, <<0,0,1>> >>, << <<0,-1,0>>, <<1,0,0>>, <<0,0,1>> >>, << <<0,0,1>>, <<1,0,0>>, <<0,1,0>> >>,
           << <<-1,0,0>>, <<0,-1,0>>, <<0,0,1>> >>, << <<1,0,0>>, <<0,0,-1>>, <<0,1,0>> >>, << <<0,1,0>>, <<0,0,1>>, <<1,0,0>> >> >>
InitState(c) == [g |-> [P |-> c.given.P, F |-> c.given.F, E |-> c.given.E, C |-> c.given.C],
                 D |-> Derive(c.given.F, Len(c.given.P), c.given.E), fam |-> c.given.family, moved |-> "still", stored |-> FALSE, tiny |-> c.given.scale10 > 0, ncalls |-> [n \in {} |-> 0]]
NV(s) == Len(s.g.P)
Each(n, f(_)) == [i \in 1..n |-> f(i)]
SqOf(x) == R(x)
(* whether the definition has an exact surrogate on the current mesh: "ok", "na" (skip), "circ" (predicate), "?" *)
Avail(s, e) ==
  LET g == s.g
      D == s.D
      nm == e.name
  IN
  CASE nm = "face_area" -> IF \E f \in 1..Len(g.F) : ~FacePlanar(g, f) THEN "na" ELSE "ok"
    [] nm = "face_circumcenter" -> IF \E f \in 1..Len(g.F) : Len(g.F[f]) # 3 \/ FaceN(g, f) = <<0, 0, 0>> THEN "na" ELSE "circ"
    [] nm = "cotan_weights" -> IF \E k \in 1..Len(g.E) : CotanWeight(g, D, k)[2] = 0 THEN "na" ELSE "ok"
    [] nm = "vertex_normals" -> IF \E v \in 1..NV(s) : VNormalDir(g, D, v - 1, e.mode) = <<0, 0, 0>> THEN "na" ELSE "ok"
    [] nm = "angle_defects" -> IF \E v \in 0..(NV(s) - 1) : ~AllK(g, D, v) THEN "na" ELSE "ok"
    [] nm \in {"total_area", "mean_face_area"} -> IF \E f \in 1..Len(g.F) : ~FacePlanar(g, f) \/ ~IsSq(Area2x4(g, f)) THEN "na" ELSE "ok"
    [] nm = "mean_edge_length" -> IF \E k \in 1..Len(g.E) : LET d == ISub(Pt(g, g.E[k][1]), Pt(g, g.E[k][2])) IN ~IsSq(IDt(d, d)) THEN "na" ELSE "ok"
    [] nm \in {"edge_length", "edge_middle_point", "face_normals", "face_barycenter", "corner_angles", "cotangent", "degree", "cell_volume",
               "cell_barycenter", "euler_characteristic", "barycenter", "mean_cell_volume", "interp_v2f", "interp_f2v", "scatter_v2c", "avg_c2v",
               "scatter_f2c", "avg_c2f"} -> "ok"
    [] OTHER -> "?"
NA == <<>>
Expected(s, e) ==        \* the sequence of expected surrogates, or NA
  LET g == s.g
      D == s.D
      nm == e.name
  IN
  CASE nm = "edge_length" -> Each(Len(g.E), LAMBDA k : LET d == ISub(Pt(g, g.E[k][1]), Pt(g, g.E[k][2])) IN R(IDt(d, d)))
    [] nm = "edge_middle_point" -> Each(Len(g.E), LAMBDA k : Bary(g, g.E[k]))
    [] nm = "face_area" -> IF \E f \in 1..Len(g.F) : ~FacePlanar(g, f) THEN NA ELSE Each(Len(g.F), LAMBDA f : Norm(<<Area2x4(g, f), 4>>))
    [] nm = "face_normals" -> Each(Len(g.F), LAMBDA f : UnitSurrogate(FaceN(g, f)))
    [] nm = "face_barycenter" -> Each(Len(g.F), LAMBDA f : Bary(g, g.F[f]))
    [] nm = "face_circumcenter" -> IF \E f \in 1..Len(g.F) : Len(g.F[f]) # 3 \/ FaceN(g, f) = <<0, 0, 0>> THEN NA ELSE <<>>
    [] nm = "corner_angles" -> Each(D.nc, LAMBDA c : LET uv == CornerVecs(g, D, c - 1) IN AngSurrogate(uv[1], uv[2]))
    [] nm = "cotangent" -> Each(D.nc, LAMBDA c : LET uv == CornerVecs(g, D, c - 1) IN CotSurrogate(uv[1], uv[2]))
    [] nm = "cotan_weights" -> LET w == Each(Len(g.E), LAMBDA k : CotanWeight(g, D, k)) IN IF \E k \in 1..Len(w) : w[k][2] = 0 THEN NA ELSE w
    [] nm = "vertex_normals" -> LET w == Each(NV(s), LAMBDA v : VNormalDir(g, D, v - 1, e.mode))
                                IN IF \E v \in 1..NV(s) : w[v] = <<0, 0, 0>> THEN NA ELSE Each(NV(s), LAMBDA v : UnitSurrogate(w[v]))
    [] nm = "angle_defects" -> IF \E v \in 0..(NV(s) - 1) : ~AllK(g, D, v) THEN NA ELSE Each(NV(s), LAMBDA v : Defect(g, D, v - 1, e.zb = 1))
    [] nm = "degree" -> Each(NV(s), LAMBDA v : Degree(g, v - 1))
    [] nm = "cell_volume" -> Each(Len(g.C), LAMBDA c : CellVol(g, c))
    [] nm = "cell_barycenter" -> Each(Len(g.C), LAMBDA c : Bary(g, g.C[c]))
    [] nm = "euler_characteristic" -> << NV(s) - Len(g.E) + Len(g.F) >>
    [] nm = "barycenter" -> << Bary(g, Each(NV(s), LAMBDA v : v - 1)) >>
    [] nm = "total_area" -> IF \E f \in 1..Len(g.F) : ~FacePlanar(g, f) \/ ~IsSq(Area2x4(g, f)) THEN NA
                            ELSE << RSum(Each(Len(g.F), LAMBDA f : Norm(<<ISqrt(Area2x4(g, f)), 2>>))) >>
    [] nm = "mean_face_area" -> IF \E f \in 1..Len(g.F) : ~FacePlanar(g, f) \/ ~IsSq(Area2x4(g, f)) THEN NA
                                ELSE << RDiv(RSum(Each(Len(g.F), LAMBDA f : Norm(<<ISqrt(Area2x4(g, f)), 2>>))), R(Len(g.F))) >>
    [] nm = "mean_edge_length" -> LET l2 == Each(Len(g.E), LAMBDA k : LET d == ISub(Pt(g, g.E[k][1]), Pt(g, g.E[k][2])) IN IDt(d, d))
                                  IN IF \E k \in 1..Len(l2) : ~IsSq(l2[k]) THEN NA ELSE << Norm(<<ISumI(Each(Len(l2), LAMBDA k : ISqrt(l2[k]))), Len(l2)>>) >>
    [] nm = "mean_cell_volume" -> << RDiv(RSum(Each(Len(g.C), LAMBDA c : CellVol(g, c))), R(Len(g.C))) >>
    [] nm \in {"interp_v2f", "interp_f2v", "scatter_v2c", "avg_c2v", "scatter_f2c", "avg_c2f"} ->     \* a constant stays that constant
         Each(e.n, LAMBDA i : <<7, 2>>)
    [] OTHER -> <<>>
(* homogeneity degree of every quantity in the size of the mesh: the driver multiplies the values of a mesh shrunk by 10^k (given.scale10) *)
(* by 10^(k * degree) before projecting them, and must use this table                                                                        *)
HomDeg(nm) == IF nm \in {"edge_length", "edge_middle_point", "face_barycenter", "face_circumcenter", "cell_barycenter", "barycenter", "mean_edge_length"} THEN 1
              ELSE IF nm \in {"face_area", "total_area", "mean_face_area"} THEN 2
              ELSE IF nm \in {"cell_volume", "mean_cell_volume"} THEN 3 ELSE 0
Judge(c, s, e) ==
  IF e.op = "quantity" /\ e.deg # HomDeg(e.name) THEN Bad("recorded_with_the_quantitys_homogeneity_degree", e.name, "", s)
  ELSE IF e.op = "transform" THEN
       IF e.exc # "" THEN Bad("transform_succeeds", s.fam, e.exc, s)
       ELSE Ok([s EXCEPT !.g = Motion(s.g, Mats[e.mi], e.s, e.t), !.moved = IF s.stored THEN "moved" ELSE s.moved])     \* only attributes stored BEFORE a move can be stale after it
  ELSE LET av == Avail(s, e)
           want == Expected(s, e)
           again == IF e.name \in DOMAIN s.ncalls THEN s.ncalls[e.name] ELSE 0
           nxt == [s EXCEPT !.ncalls = (e.name :> again + 1) @@ s.ncalls, !.stored = s.stored \/ e.persistent = 1]
           cls == e.name \o (IF e.mode # "" THEN "/" \o e.mode ELSE "") \o (IF e.persistent = 1 THEN "/persistent" ELSE "")
                  \o (IF again > 0 THEN "/computed_again" ELSE "") \o (IF s.moved = "moved" THEN "/after_transform" ELSE "") \o (IF s.tiny THEN "/tiny" ELSE "")
       IN IF av = "na" THEN Skip(nxt)
          ELSE IF av = "?" THEN Bad("unknown_quantity", e.name, "", nxt)
          ELSE IF e.exc # "" THEN Bad("computation_succeeds", cls, e.exc, nxt)
          ELSE IF e.name = "face_circumcenter" THEN
               Check(<< << Len(e.vals) = Len(s.g.F) /\ \A f \in 1..Len(s.g.F) : CircOk(s.g, f, e.vals[f]), "equals_its_definition_on_the_current_geometry" >> >>, cls, "", nxt)
          ELSE Check(<< << Len(e.vals) = Len(want), "one_value_per_element" >>,
                        << Len(e.vals) # Len(want) \/ \A i \in 1..Len(want) : e.vals[i] = want[i], "equals_its_definition_on_the_current_geometry" >> >>, cls, "", nxt)
W0 == INSTANCE Walker
Spec == W0!Spec
=============================================================================
