-------------------------------- MODULE Rat --------------------------------
(* Exact rationals as gcd-normalised pairs <<num, den>>, den > 0.  TLC integers are 32 bit *)
(* and overflow is an error, so the specifications only use small lattice inputs.            *)
EXTENDS Naturals, Integers, Sequences

RECURSIVE Gcd(_, _)
Gcd(a, b) == IF b = 0 THEN a ELSE Gcd(b, a % b)
Abs(a) == IF a < 0 THEN -a ELSE a
Norm(r) == LET s == IF r[2] < 0 THEN -1 ELSE 1
               g == Gcd(Abs(r[1]), Abs(r[2]))
           IN IF g = 0 THEN <<0, 1>> ELSE <<(s * r[1]) \div g, (s * r[2]) \div g>>
R(n) == <<n, 1>>
RAdd(a, b) == LET g == Gcd(a[2], b[2]) IN Norm(<<a[1] * (b[2] \div g) + b[1] * (a[2] \div g), (a[2] \div g) * b[2]>>)   \* over the lcm: smaller intermediates
RNeg(a)    == <<-a[1], a[2]>>
RSub(a, b) == RAdd(a, RNeg(b))
RMul(a, b) == Norm(<<a[1] * b[1], a[2] * b[2]>>)
RInv(a)    == Norm(<<a[2], a[1]>>)
RDiv(a, b) == RMul(a, RInv(b))
RLt(a, b)  == a[1] * b[2] < b[1] * a[2]
RLe(a, b)  == a[1] * b[2] <= b[1] * a[2]
RMax(a, b) == IF RLt(a, b) THEN b ELSE a
RMin(a, b) == IF RLt(a, b) THEN a ELSE b
RIsZero(a) == a[1] = 0
RSign(a)   == IF a[1] > 0 THEN 1 ELSE IF a[1] < 0 THEN -1 ELSE 0
IsRat(a)   == Len(a) = 2 /\ a[2] > 0

(* vectors of rationals *)
VAdd(p, q) == [i \in 1..Len(p) |-> RAdd(p[i], q[i])]
VSub(p, q) == [i \in 1..Len(p) |-> RSub(p[i], q[i])]
VMulS(s, p) == [i \in 1..Len(p) |-> RMul(s, p[i])]
VNormed(p) == [i \in 1..Len(p) |-> Norm(p[i])]
RECURSIVE RSum(_)
RSum(q) == IF q = <<>> THEN R(0) ELSE RAdd(q[1], RSum(Tail(q)))
VDot(p, q) == RSum([i \in 1..Len(p) |-> RMul(p[i], q[i])])
VCross(p, q) == << RSub(RMul(p[2], q[3]), RMul(p[3], q[2])),
                   RSub(RMul(p[3], q[1]), RMul(p[1], q[3])),
                   RSub(RMul(p[1], q[2]), RMul(p[2], q[1])) >>
MatVec(M, p) == [i \in 1..Len(M) |-> VDot(M[i], p)]
=============================================================================
