CONSTANTS
  AsBuilt = TRUE
SPECIFICATION Spec
INVARIANT SquareAssignmentOk
CHECK_DEADLOCK FALSE
