------------------------------- MODULE C15_MC -------------------------------
(* On every enumerated oriented manifold complex and from every border vertex: the library's walk, *)
(* reading neighbourhoods in sorted (rotational) order, returns exactly the border loop of its start. *)
(* With Sorted = FALSE the neighbourhood order is arbitrary (here: reversed, and rotated by one) and    *)
(* the walk can leave the border along a chord or start towards the interior: the extraction relies on  *)
(* neighbourhood sorting being on.                                                                       *)
EXTENDS MeshEnum, C15_Border
CONSTANTS Sorted
RingFor == [v \in 0..(NV - 1) |-> IF Sorted THEN VRingOf(D, v)
                                     ELSE LET r == VRingOf(D, v) IN IF Len(r) <= 1 THEN r ELSE Tail(r) \o <<r[1]>>]
WalkIsTheLoop ==
  (faces # {} /\ IsVertexManifold(D)) =>
     \A s \in BorderVerts(D) : LET w == BorderWalk(D, RingFor, s) IN
         /\ NoDup(w) /\ SeqSet(w) = SeqSet(BorderLoopOf(D, s))
         /\ \A i \in 1..Len(w) : IsBorderEdge(D, w[i], w[(i % Len(w)) + 1])
=============================================================================
