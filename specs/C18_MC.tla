------------------------------- MODULE C18_MC -------------------------------
(* Singularity flagging of the face-based field, for EVERY assignment of a frame exp(i k pi/4), k in 0..7, *)
(* to the faces of a small pi/4-lattice mesh, every order in Orders and every way of breaking matching ties: *)
(*   - the holonomy of every interior vertex is a whole number of quanta (2 pi / n);                           *)
(*   - the holonomies of all vertices add up to 2 pi * Euler characteristic (4 * Euler in the flagged scale).  *)
(* One state per (order, field, tie-break).  Sampled fields are emitted and replayed into the real     *)
(* flag_singularities().                                                                                        *)
EXTENDS C18_FrameField, Json
CONSTANTS MeshId, Orders, Sample, TieAll
VARIABLES n, fk, tb, rot, lvl

WithE(g) == g @@ [E |-> SetToSeq(UNION { { Key(g.F[k][i], g.F[k][(i % 3) + 1]) : i \in 1..3 } : k \in 1..Len(g.F) }), C |-> <<>>]
Pinwheel == [P |-> << <<0,0,0>>, <<2,0,0>>, <<2,2,0>>, <<0,2,0>>, <<1,1,0>> >>, F |-> << <<0,1,4>>, <<1,2,4>>, <<2,3,4>>, <<3,0,4>> >>]
Pillow   == [P |-> << <<0,0,0>>, <<1,0,0>>, <<1,1,0>>, <<0,1,0>> >>, F |-> << <<0,1,2>>, <<0,2,3>>, <<0,3,1>>, <<1,3,2>> >>]
Corner   == [P |-> << <<0,0,0>>, <<1,0,0>>, <<0,1,0>>, <<0,0,1>>, <<1,1,0>>, <<0,1,1>>, <<1,0,1>> >>,
             F |-> << <<0,2,4>>, <<0,4,1>>, <<0,3,5>>, <<0,5,2>>, <<0,1,6>>, <<0,6,3>> >>]
Cube     == [P |-> << <<0,0,0>>, <<2,0,0>>, <<2,2,0>>, <<0,2,0>>, <<0,0,2>>, <<2,0,2>>, <<2,2,2>>, <<0,2,2>> >>,
             F |-> << <<0,2,1>>, <<0,3,2>>, <<0,1,5>>, <<0,5,4>>, <<1,2,6>>, <<1,6,5>>, <<2,3,7>>, <<2,7,6>>, <<3,0,4>>, <<3,4,7>>, <<4,5,6>>, <<4,6,7>> >>]
Strip    == [P |-> << <<0,0,0>>, <<1,0,0>>, <<2,0,0>>, <<0,1,0>>, <<1,1,0>>, <<2,1,0>> >>, F |-> << <<0,1,4>>, <<0,4,3>>, <<1,2,5>>, <<1,5,4>> >>]
G == WithE(CASE MeshId = "pinwheel" -> Pinwheel [] MeshId = "pillow" -> Pillow [] MeshId = "corner" -> Corner [] MeshId = "cube" -> Cube [] MeshId = "strip" -> Strip)
D == Derive(G.F, Len(G.P), G.E)
FE == BorderKeys(G, D)
NF == Len(G.F)
NE == Len(G.E)
TAB == Tab(G, D, FE)
INT == InteriorVerts(G, D)
CHI == Euler(D)

Ties(nn, k) == { e \in 1..NE : Cardinality(EdgeRotSetT(TAB, nn, k, e)) > 1 }
RotOf(nn, k, t) == [e \in 1..NE |-> LET S == EdgeRotSetT(TAB, nn, k, e) IN
                        IF e \in t THEN CHOOSE x \in S : \A y \in S : x >= y ELSE CHOOSE x \in S : \A y \in S : x <= y]
(* the fields are enumerated as a tree (face lvl + 1 receives its value at depth lvl) so that all workers share the exploration *)
Init == /\ n \in Orders
        /\ fk = [f \in 1..NF |-> 0]
        /\ tb = {}
        /\ rot = RotOf(n, fk, tb)
        /\ lvl = 0
Assign == /\ lvl < NF
          /\ lvl' = lvl + 1
          /\ n' = n
          /\ \E v \in 0..7 : fk' = [fk EXCEPT ![lvl + 1] = v]
          /\ tb' \in (IF TieAll THEN SUBSET Ties(n, fk') ELSE { {}, Ties(n, fk') })
          /\ rot' = RotOf(n, fk', tb')
Next == Assign
Spec == Init /\ [][Next]_<< n, fk, tb, rot, lvl >>
Rot == rot
H(v) == HolT(TAB, n, Rot, v)
SANE == Lattice(G) /\ IsManifold(D) /\ SortedEdges(G) /\ SimplePairs(G, D)
ModelSane == SANE
QuantumThm == \A v \in INT : Mod(H(v), 8) = 0
SumThm == ISumI([i \in 1..Len(G.P) |-> H(i - 1)]) = 8 * n * CHI
(* the rotation across an edge never exceeds half a quantum, and is one *)
MatchingThm == \A e \in TAB.ie : AbsI(Rot[e]) <= 4 /\ Mod(Rot[e] - CandRot(n, fk[TAB.t1[e]], TAB.a1[e], fk[TAB.t2[e]], TAB.a2[e], 0), 8) = 0
(* expected to be violated: a field with a singular interior vertex exists (the theorems are not vacuous) *)
NoSingularity == \A v \in INT : H(v) = 0
NoTie == tb = {}
Emit == IF tb = {} /\ (ISumI([i \in 1..NF |-> fk[i] * (i + 2) * (i + 2)]) + 5 * n) % Sample = 0
        THEN PrintT(ToJson([k |-> "field", mesh |-> MeshId, n |-> n, fk |-> fk])) ELSE TRUE
=============================================================================
