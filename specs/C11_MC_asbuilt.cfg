CONSTANTS
  NP = 3
  Dim = 1
  Leaf = 2
  Strategy = "median"
  AsBuilt = TRUE
  EmitOn = FALSE
SPECIFICATION Spec
INVARIANT BoundedSplits
CHECK_DEADLOCK FALSE
