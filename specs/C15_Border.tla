----------------------------- MODULE C15_Border -----------------------------
(* Border loops of an oriented manifold surface, and the walk the library uses to extract them. *)
(* Oracle: the border half-edges (u -> v with no opposite) form disjoint cycles; pred(v) is the    *)
(* tail of the border half-edge that ends in v.                                                      *)
(* Walk (as in processing.border): from `start` step to the FIRST neighbour of start, then keep       *)
(* stepping to the first neighbour (in the order the connectivity lists them) that is a border vertex   *)
(* and is not the vertex just left, until start is reached again.                                        *)
EXTENDS MeshCore

PredB(D, v) == (CHOOSE d \in BorderHE(D) : d[2] = v)[1]
RECURSIVE LoopFrom(_, _, _, _)
LoopFrom(D, start, v, fuel) == IF fuel = 0 THEN <<v>> ELSE LET p == PredB(D, v) IN IF p = start THEN <<v>> ELSE <<v>> \o LoopFrom(D, start, p, fuel - 1)
BorderLoopOf(D, start) == LoopFrom(D, start, start, D.nv)          \* start, pred(start), pred(pred(start)), ...

RECURSIVE WalkB(_, _, _, _, _, _)
WalkB(D, Ring, start, p1, p2, fuel) ==          \* Ring: function vertex -> its neighbours in the order the connectivity lists them
  IF p2 = start \/ fuel = 0 THEN <<>>
  ELSE LET r == Ring[p2]
           cands == { i \in 1..Len(r) : r[i] \in BorderVerts(D) /\ r[i] # p1 }
       IN IF cands = {} THEN <<p2>>
          ELSE LET nx == r[CHOOSE i \in cands : \A j \in cands : i <= j] IN <<p2>> \o WalkB(D, Ring, start, p2, nx, fuel - 1)
BorderWalk(D, Ring, start) == <<start>> \o WalkB(D, Ring, start, start, Ring[start][1], D.nv)

(* what an extracted cycle must be *)
IsBorderCycle(D, start, vs, es) ==
  /\ Len(vs) >= 3 /\ vs[1] = start /\ NoDup(vs)
  /\ SeqSet(vs) = SeqSet(BorderLoopOf(D, start))                                         \* every border vertex of the loop, once
  /\ \A i \in 1..Len(vs) : IsBorderEdge(D, vs[i], vs[(i % Len(vs)) + 1])                  \* a closed walk along border edges
  /\ Len(es) = Len(vs) /\ \A i \in 1..Len(vs) : es[i] = EdgeId(D, vs[i], vs[(i % Len(vs)) + 1])
=============================================================================
