------------------------------ MODULE C19_Bezier ------------------------------
(* Bezier curves and patches over exact rationals: de Casteljau's recursion and the Bernstein form. *)
EXTENDS Rat, FiniteSets, TLC
RECURSIVE Fact(_)
Fact(n) == IF n = 0 THEN 1 ELSE n * Fact(n - 1)
Binom(n, k) == Fact(n) \div (Fact(k) * Fact(n - k))
RECURSIVE RPow(_, _)
RPow(x, k) == IF k = 0 THEN R(1) ELSE RMul(x, RPow(x, k - 1))
Bern(n, i, t) == RMul(R(Binom(n, i)), RMul(RPow(t, i), RPow(RSub(R(1), t), n - i)))
RECURSIVE VSumQ(_, _)
VSumQ(q, d) == IF q = <<>> THEN [k \in 1..d |-> R(0)] ELSE VAdd(q[1], VSumQ(Tail(q), d))
(* P: sequence of control points (sequences of rationals) *)
Bernstein(P, t) == LET n == Len(P) - 1 IN VSumQ([i \in 1..Len(P) |-> VMulS(Bern(n, i - 1, t), P[i])], Len(P[1]))
RECURSIVE DeCasteljau(_, _)
DeCasteljau(P, t) == IF Len(P) = 1 THEN P[1]
                     ELSE DeCasteljau([i \in 1..(Len(P) - 1) |-> VAdd(VMulS(t, P[i + 1]), VMulS(RSub(R(1), t), P[i]))], t)
PatchBernstein(N, u, v) == Bernstein([i \in 1..Len(N) |-> Bernstein(N[i], u)], v)          \* rows evaluated at u, then the column at v
RPt(p) == [k \in 1..Len(p) |-> R(p[k])]
InBounds(x, P) == \A k \in 1..Len(x) : (\E i \in 1..Len(P) : RLe(P[i][k], x[k])) /\ (\E i \in 1..Len(P) : RLe(x[k], P[i][k]))
(* reference grid faces of an n1 x n2 sampling: vertex (i, j) has index i * n2 + j *)
GridQuads(n1, n2) == [k \in 1..((n1 - 1) * (n2 - 1)) |-> LET i == (k - 1) \div (n2 - 1)
                                                             j == (k - 1) % (n2 - 1)
                                                         IN <<i * n2 + j, i * n2 + j + 1, (i + 1) * n2 + j + 1, (i + 1) * n2 + j>>]
(* nearest perfect d-th power in grid mode: res = round(n^(1/d)), by integers: (2r-1)^d <= 2^d n < (2r+1)^d *)
RECURSIVE IPow(_, _)
IPow(b, k) == IF k = 0 THEN 1 ELSE b * IPow(b, k - 1)
GridRes(n, d) == CHOOSE r \in 0..n : IPow(2 * r - 1, d) <= IPow(2, d) * n /\ IPow(2, d) * n < IPow(2 * r + 1, d)
=============================================================================
