------------------------------- MODULE C09_MC -------------------------------
(* Every graph on N nodes with edge weights in 0..MaxW, every start vertex; every choice among *)
(* entries of equal minimum priority.  Terminates, and then dist = Dist (Bellman-Ford) and the   *)
(* back-tracked path to every reachable vertex is a shortest path.                               *)
EXTENDS C09_Paths
CONSTANTS N, MaxW
VARIABLES G, W, start, s
vars == <<G, W, start, s>>
Pairs == { <<u, v>> \in (0..(N - 1)) \X (0..(N - 1)) : u < v }
Init == \E es \in SUBSET Pairs : \E w \in [es -> 0..MaxW] : \E st \in 0..(N - 1) :
          /\ G = [n |-> N, A |-> SymClose(es)]
          /\ W = [p \in SymClose(es) |-> IF p \in es THEN w[p] ELSE w[<<p[2], p[1]>>]]
          /\ start = st /\ s = DInit([n |-> N, A |-> SymClose(es)], st)
Pop(e) == /\ e \in s.bag /\ e[2] = MinPrio(s) /\ s' = DStep(G, W, s, e) /\ UNCHANGED <<G, W, start>>
Next == \E e \in s.bag : Pop(e)
Spec == Init /\ [][Next]_vars /\ WF_vars(Next)
Terminates == <>(s.bag = {})
D == Dist(G, W, start)
Correct == s.bag = {} => /\ \A v \in GNodes(G) : s.dist[v] = D[v]
                         /\ \A v \in Reach(G, start) : IsShortestPath(G, W, D, start, v, BackTrack(s.pred, start, v, N))
SettledAreFinal == \A v \in s.visited : s.dist[v] = D[v]        \* Dijkstra's invariant
View == <<G, W, start, s.dist, s.pred, s.visited, { <<e[1], e[2]>> : e \in s.bag }>>
=============================================================================
