------------------------------ MODULE TetCore ------------------------------
(* "Direct inspection of the cell list" for tetrahedral meshes.  Ids are the library's       *)
(* (0-based); None is -1.  DT = DeriveT(C, F, E, nv): C cells (4 vertex ids each), F the mesh's *)
(* face list (as built: C02 decides its content), E its edge list.                              *)
EXTENDS Naturals, Integers, Sequences, FiniteSets, TLC, SequencesExt, FiniteSetsExt

TNone == -1
TSet(q) == { q[i] : i \in 1..Len(q) }
TKey(u, v) == IF u < v THEN <<u, v>> ELSE <<v, u>>
FaceOpp(c, i) == [j \in 1..3 |-> c[IF j < i THEN j ELSE j + 1]]          \* the vertices of cell c except its i-th (1-based)

DeriveT(C, F, E, nv) ==
  LET nc == Len(C)
      nf == Len(F)
      fid == [s \in { TSet(F[k]) : k \in 1..nf } |-> (CHOOSE k \in 1..nf : TSet(F[k]) = s) - 1]
      f2c == [f \in 0..(nf - 1) |-> { c \in 0..(nc - 1) : TSet(F[f + 1]) \subseteq TSet(C[c + 1]) }]
      eid == [k \in { TKey(E[j][1], E[j][2]) : j \in 1..Len(E) } |-> (CHOOSE j \in 1..Len(E) : TKey(E[j][1], E[j][2]) = k) - 1]
      e2c == [e \in 0..(Len(E) - 1) |-> { c \in 0..(nc - 1) : {E[e + 1][1], E[e + 1][2]} \subseteq TSet(C[c + 1]) }]
      e2f == [e \in 0..(Len(E) - 1) |-> { f \in 0..(nf - 1) : {E[e + 1][1], E[e + 1][2]} \subseteq TSet(F[f + 1]) }]
  IN [C |-> C, F |-> F, E |-> E, nv |-> nv, nc |-> nc, nf |-> nf, fid |-> fid, f2c |-> f2c, eid |-> eid, e2c |-> e2c, e2f |-> e2f]

(* ---- validity: a conforming tetrahedral complex with its faces and edges completed ---- *)
AllTriFaces(D) == { s \in SUBSET (0..(D.nv - 1)) : Cardinality(s) = 3 /\ \E c \in 1..D.nc : s \subseteq TSet(D.C[c]) }
AllEdges(D)    == { TKey(D.C[c][i], D.C[c][j]) : c \in 1..D.nc, i \in 1..4, j \in 1..4 } \ { <<v, v>> : v \in 0..(D.nv - 1) }
IsTetComplex(D) ==
  /\ \A c \in 1..D.nc : Len(D.C[c]) = 4 /\ Cardinality(TSet(D.C[c])) = 4 /\ TSet(D.C[c]) \subseteq 0..(D.nv - 1)
  /\ Cardinality({ TSet(D.C[c]) : c \in 1..D.nc }) = D.nc
  /\ { TSet(D.F[k]) : k \in 1..D.nf } = AllTriFaces(D) /\ Cardinality(AllTriFaces(D)) = D.nf    \* faces = cell faces, once
  /\ { TKey(D.E[j][1], D.E[j][2]) : j \in 1..Len(D.E) } = AllEdges(D) /\ Cardinality(AllEdges(D)) = Len(D.E)
  /\ \A f \in 0..(D.nf - 1) : Cardinality(D.f2c[f]) \in {1, 2}                                   \* a face separates at most two cells

(* the cells around every edge form ONE fan (they are linked through faces containing the edge): only then is *)
(* "rotational order around the edge" defined; two tetrahedra touching along an edge only are excluded       *)
RECURSIVE GrowT(_, _)
GrowT(S, R) == LET T == S \cup { p[2] : p \in { q \in R : q[1] \in S } } IN IF T = S THEN S ELSE GrowT(T, R)
EdgeFanConnected(D, e) ==
  LET cs == D.e2c[e]
      R == { <<a, b>> \in cs \X cs : a # b /\ \E f \in D.e2f[e] : {a, b} \subseteq D.f2c[f] }
  IN cs = {} \/ GrowT({CHOOSE a \in cs : TRUE}, R) = cs
EdgeFansConnected(D) == \A e \in 0..(Len(D.E) - 1) : EdgeFanConnected(D, e)

(* ---- answers ---- *)
FaceId(D, s)        == IF s \in DOMAIN D.fid THEN D.fid[s] ELSE TNone
CellFace(D, c, i)   == FaceId(D, TSet(FaceOpp(D.C[c + 1], i + 1)))          \* i-th face: opposite the i-th vertex
CellNeighbours(D, c) == { d \in 0..(D.nc - 1) : d # c /\ Cardinality(TSet(D.C[c + 1]) \cap TSet(D.C[d + 1])) = 3 }
OtherSide(D, c, f)  == IF Cardinality(D.f2c[f]) = 2 /\ c \in D.f2c[f] THEN CHOOSE d \in D.f2c[f] : d # c ELSE TNone
CommonFace(D, c, d) == LET s == TSet(D.C[c + 1]) \cap TSet(D.C[d + 1]) IN IF Cardinality(s) = 3 THEN FaceId(D, s) ELSE TNone
VertexCells(D, v)   == { c \in 0..(D.nc - 1) : v \in TSet(D.C[c + 1]) }
InCellIndex(D, c, v) == IF v \in TSet(D.C[c + 1]) THEN (CHOOSE i \in 1..4 : D.C[c + 1][i] = v) - 1 ELSE TNone
InCellFaceIndex(D, c, f) == LET is == { i \in 1..4 : TSet(FaceOpp(D.C[c + 1], i)) = TSet(D.F[f + 1]) } IN
                            IF is = {} THEN TNone ELSE (CHOOSE i \in is : TRUE) - 1
CellEdges(D, c)     == { D.eid[TKey(D.C[c + 1][p[1]], D.C[c + 1][p[2]])] : p \in { q \in (1..4) \X (1..4) : q[1] < q[2] } }
BorderFaces(D)      == { f \in 0..(D.nf - 1) : Cardinality(D.f2c[f]) = 1 }
BorderVertsT(D)     == UNION { TSet(D.F[f + 1]) : f \in BorderFaces(D) }
BorderEdgesT(D)     == { e \in 0..(Len(D.E) - 1) : \E f \in BorderFaces(D) : f \in D.e2f[e] }

(* rotational order around an edge: cyclically consecutive entries are neighbours, with at most one gap (border edge) *)
Adjacent(ring, Rel(_, _)) == Cardinality({ i \in 1..Len(ring) : Rel(ring[i], ring[(i % Len(ring)) + 1]) })
CellsShareFaceAt(D, e, a, b) == a # b /\ \E f \in D.e2f[e] : {a, b} \subseteq D.f2c[f]
FacesShareCell(D, f, g) == f # g /\ D.f2c[f] \cap D.f2c[g] # {}
IsRotational(ring, members, Rel(_, _)) ==
  /\ TSet(ring) = members /\ Len(ring) = Cardinality(members)
  /\ Len(ring) <= 2 \/ Adjacent(ring, Rel) >= Len(ring) - 1

(* ---- orientation (integer lattice coordinates) ---- *)
Det3i(a, b, c) == a[1] * (b[2] * c[3] - b[3] * c[2]) - a[2] * (b[1] * c[3] - b[3] * c[1]) + a[3] * (b[1] * c[2] - b[2] * c[1])
Sub3(p, q) == << p[1] - q[1], p[2] - q[2], p[3] - q[3] >>
(* triangle (A, B, C) seen from D: positive iff D is on the inner side, i.e. the triangle is oriented outwards *)
OutwardDet(P, A, B, C, Dv) == Det3i(Sub3(P[A + 1], P[Dv + 1]), Sub3(P[B + 1], P[Dv + 1]), Sub3(P[C + 1], P[Dv + 1]))
(* "positively oriented" is the library's own convention: det(A - D, B - D, C - D) > 0 for the cell (A, B, C, D), which is *)
(* the orientation for which the documented face order (B,D,C), (A,C,D), (D,B,A), (A,B,C) is outward                        *)
CellPositive(P, c) == Det3i(Sub3(P[c[1] + 1], P[c[4] + 1]), Sub3(P[c[2] + 1], P[c[4] + 1]), Sub3(P[c[3] + 1], P[c[4] + 1])) > 0
(* closed: every edge of the surface lies in an even, non-zero number of its faces (two, unless cells touch along an edge) *)
EdgeUse(Fs, u, v) == Cardinality({ k \in 1..Len(Fs) : {u, v} \subseteq TSet(Fs[k]) })
ClosedSurface(Fs, nvb) == \A k \in 1..Len(Fs) : \A i \in 1..3 :
                             LET n == EdgeUse(Fs, Fs[k][i], Fs[k][(i % 3) + 1]) IN n >= 2 /\ n % 2 = 0
=============================================================================
