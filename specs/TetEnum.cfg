CONSTANTS
  NV = 6
  MaxC = 3
  EmitOn = TRUE
SPECIFICATION Spec
INVARIANT Emit
CHECK_DEADLOCK FALSE
