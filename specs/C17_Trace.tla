------------------------------ MODULE C17_Trace ------------------------------
(* given = [P (integer points), F, E, family].                                                     *)
(* event "tutte" = [mode ("circle"|"square"), cotan (0/1), exc,                                         *)
(*    uvV  per-vertex result  (run with save_on_corners = False):  fixed-point pairs round(u * 10^6)     *)
(*    uvC  per-corner result  (run with save_on_corners = True)                                          *)
(*    bq   for every vertex, exact surrogates of its uv: square mode <<u, v>> rationals; circle mode      *)
(*         <<u^2 + v^2, atan2(v, u) / pi>> rationals (<<0,0>> where not representable)                     *)
(*    sg   per face: the sign of the uv triangle's determinant, computed exactly from the floats ]         *)
EXTENDS TraceKit, C17_Tutte, C15_Border
VARIABLES ci, ei, st, nj, ns, ne
InitState(c) == LET D == Derive(c.given.F, Len(c.given.P), c.given.E)
                IN [g |-> [P |-> c.given.P, F |-> c.given.F, E |-> c.given.E, C |-> <<>>], D |-> D, fam |-> c.given.family,
                    ok |-> IsManifold(D) /\ EdgesAreSides(D) /\ \A f \in 1..D.nf : Len(D.F[f]) = 3]
Iabs(x) == IF x < 0 THEN -x ELSE x
Twice(w) == IF w[2] = 1 THEN 2 * w[1] ELSE IF w[2] = 2 THEN w[1] ELSE -999999      \* 2 * weight as an integer (weights are multiples of 1/2 here)
Judge(c, s, e) ==
  LET g == s.g
      D == s.D
      disk == IsDisk(D)
      nvs == Len(g.P)
      cls == s.fam \o "/" \o e.mode \o (IF e.cotan = 1 THEN "/cotan" ELSE "/uniform")
  IN
  IF ~s.ok THEN Skip(s)
  ELSE IF Euler(D) # 1 THEN (IF e.exc # "" THEN Ok(s) ELSE Bad("surface_that_is_not_a_disk_is_rejected", cls, "", s))
  ELSE IF ~disk \/ UsedVerts(D) # 0..(nvs - 1) THEN Skip(s)
  ELSE IF e.cotan = 1 /\ \E f \in 1..D.nf : FaceN(g, f) = <<0, 0, 0>> THEN Skip(s)          \* zero-area triangle: cotangent weights undefined
  ELSE IF e.exc # "" THEN Bad("embedding_is_computed", cls, e.exc, s)
  ELSE
  LET B == BorderVerts(D)
      loop == BorderLoopOf(D, CHOOSE v \in B : TRUE)                          \* the border in border order, read off the face list
      n == Len(loop)
      wts == [k \in 1..Len(g.E) |-> IF e.cotan = 1 THEN CotanWeight(g, D, k) ELSE R(1)]
      wAvail == \A k \in 1..Len(g.E) : wts[k][2] \in {1, 2}
      wNonNeg == \A k \in 1..Len(g.E) : wts[k][1] >= 0
      uv(v) == e.uvV[v + 1]
      onSide(f) == e.mode = "square" /\ \E k \in 1..2 : \E x \in {0, 1000000} : \A i \in 1..3 : uv(g.F[f][i])[k] = x
      borderOk ==
        IF e.mode = "square"
        THEN LET q == [j \in 1..n |-> Perim(e.bq[loop[j] + 1])] IN (\A j \in 1..n : q[j] # <<-1, 1>>) /\ CyclicMonotone(q)
        ELSE LET a == [j \in 1..n |-> e.bq[loop[j] + 1][2]] IN          \* angles / pi around the loop: steps of +-2/n, radius 1
             /\ \A j \in 1..n : e.bq[loop[j] + 1][1] = R(1) /\ a[j][2] > 0
             /\ \/ \A j \in 1..n : Congruent2(RSub(a[(j % n) + 1], a[j]), Norm(<<2, n>>))
                \/ \A j \in 1..n : Congruent2(RSub(a[j], a[(j % n) + 1]), Norm(<<2, n>>))
      meanOk == \A v \in (0..(nvs - 1)) \ B :          \* sum_j 2w_ij (u_j - u_i) = 0 up to rounding of the fixed-point values
        \A k \in 1..2 :
          LET inc == { j \in 1..Len(g.E) : v \in {g.E[j][1], g.E[j][2]} }
              other(j) == IF g.E[j][1] = v THEN g.E[j][2] ELSE g.E[j][1]
              terms == [j \in 1..Len(g.E) |-> IF j \in inc THEN Twice(wts[j]) * (uv(other(j))[k] - uv(v)[k]) ELSE 0]
              bound == ISumI([j \in 1..Len(g.E) |-> IF j \in inc THEN Iabs(Twice(wts[j])) ELSE 0]) + 4
          IN Iabs(ISumI(terms)) <= bound
  IN Check(<< << Len(e.uvV) = nvs /\ Len(e.uvC) = D.nc /\ \A cc \in 0..(D.nc - 1) : e.uvC[cc + 1] = uv(Cn(D, cc).v), "per_vertex_and_per_corner_outputs_agree" >>,
              << borderOk, "border_vertices_in_border_order_at_distinct_positions_on_the_convex_shape" >>,
              << e.honoured = 1, "custom_boundary_rows_are_the_positions_of_the_boundary_vertices" >>,
              << ~wAvail \/ meanOk, "interior_vertices_at_the_weighted_average_of_their_neighbours" >>,
              << (e.cotan = 1 /\ (~wAvail \/ ~wNonNeg)) \/ (\E f \in 1..D.nf : onSide(f))
                 \/ (\A f \in 1..D.nf : e.sg[f] = e.sg[1] /\ e.sg[f] # 0), "every_triangle_has_the_same_strict_orientation" >> >>,
           cls \o (IF e.cotan = 1 /\ wAvail /\ wNonNeg /\ (\E k \in 1..Len(g.E) : IsInteriorEdge(D, g.E[k][1], g.E[k][2]) /\ wts[k][1] = 0)
                   THEN "/zero_weight_on_an_interior_edge" ELSE ""), "", s)
W0 == INSTANCE Walker
Spec == W0!Spec
=============================================================================
