CONSTANTS
  AsBuilt = {"e2f_not_initialised"}
  D = 7
  EmitOn = FALSE
SPECIFICATION Spec
INVARIANT NoSpuriousFailure
CONSTRAINT Emit
VIEW View
CHECK_DEADLOCK FALSE
