------------------------------ MODULE C06_MC ------------------------------
(* Heap refinement of C06_Values at the grain of the implementation: every vertex of every *)
(* mesh is a REFERENCE to a coordinate buffer (numpy array); `slot[m][i]` is the reference   *)
(* held by vertex i of mesh m and `cell[r]` the buffer's content.  ValOf reads the abstract   *)
(* state through the references.  Refines: every step changes ValOf exactly as the pure       *)
(* operation of C06_Values says.  AsBuilt switches on what the pinned source does:            *)
(*   merge_shares_arrays  merge() puts the inputs' own buffers into the result                *)
(*   translate_in_place   translate() does  v += t  on each vertex's buffer, vertex by vertex *)
EXTENDS C06_Values, Json, SequencesExt
CONSTANTS AsBuilt, MaxMesh, D, EmitOn
VARIABLES slot, cell, act, hist
vars == <<slot, cell, act, hist>>

NM == Len(slot)
ValOf == [m \in 1..Len(slot) |-> [i \in 1..Len(slot[m]) |-> cell[slot[m][i]]]]
Fresh(k) == [j \in 1..k |-> Len(cell) + j]            \* k new references
A(op, f) == [op |-> op] @@ f

Init == slot = <<>> /\ cell = <<>> /\ act = [op |-> "init"] /\ hist = <<>>

Log(a) == act' = a /\ hist' = Append(hist, a)

(* a producer hands out `k` vertices; pat[i] = pat[j] means vertices i and j are ONE buffer   *)
(* (procedural.ring(open=True) stores one Vec under two ids)                                   *)
Patterns == { <<1, 2>>, <<1, 1>>, <<1, 2, 1>> }
Produce(pat) ==
  LET n == NM + 1
      nb == Cardinality({ pat[i] : i \in 1..Len(pat) })
      pts == [b \in 1..nb |-> Pt(n, b, n + b)]
  IN /\ NM < MaxMesh
     /\ slot' = Append(slot, [i \in 1..Len(pat) |-> Len(cell) + pat[i]])
     /\ cell' = cell \o pts
     /\ Log(A("produce", [pat |-> pat]))

Copy(m) ==        \* deepcopy: one new buffer per distinct buffer of the source
  LET refs == { slot[m][i] : i \in 1..Len(slot[m]) }
      ord == SetToSeq(refs)
      idx(r) == CHOOSE j \in 1..Len(ord) : ord[j] = r
  IN /\ NM < MaxMesh
     /\ slot' = Append(slot, [i \in 1..Len(slot[m]) |-> Len(cell) + idx(slot[m][i])])
     /\ cell' = cell \o [j \in 1..Len(ord) |-> cell[ord[j]]]
     /\ Log(A("copy", [m |-> m]))

Merge(a, b) ==
  /\ NM < MaxMesh
  /\ IF "merge_shares_arrays" \in AsBuilt
     THEN slot' = Append(slot, slot[a] \o slot[b]) /\ cell' = cell
     ELSE LET k == Len(slot[a]) + Len(slot[b]) IN
          /\ slot' = Append(slot, Fresh(k))
          /\ cell' = cell \o ValOf[a] \o ValOf[b]
  /\ Log(A("merge", [ms |-> <<a, b>>]))

RECURSIVE InPlaceAdd(_, _, _, _)
InPlaceAdd(c, refs, i, t) == IF i > Len(refs) THEN c
                             ELSE InPlaceAdd([c EXCEPT ![refs[i]] = VAdd(c[refs[i]], t)], refs, i + 1, t)
Rebind(m, f(_)) ==     \* vertices[i] = f(vertices[i]) : a new buffer for every vertex
  /\ slot' = [slot EXCEPT ![m] = Fresh(Len(slot[m]))]
  /\ cell' = cell \o [i \in 1..Len(slot[m]) |-> f(cell[slot[m][i]])]
Translate(m, t) ==
  /\ IF "translate_in_place" \in AsBuilt
     THEN slot' = slot /\ cell' = InPlaceAdd(cell, slot[m], 1, t)
     ELSE Rebind(m, LAMBDA p : VAdd(p, t))
  /\ Log(A("translate", [m |-> m, t |-> t]))
Scale(m, f)  == Rebind(m, LAMBDA p : VMulS(f, p)) /\ Log(A("scale", [m |-> m, f |-> f]))
Rotate(m, k) == Rebind(m, LAMBDA p : MatVec(RotTable[k], p)) /\ Log(A("rotate", [m |-> m, r |-> k]))
EditInPlace(m, i) == /\ slot' = slot /\ cell' = [cell EXCEPT ![slot[m][i]] = Pt(9, 9, 9)]
                     /\ Log(A("edit_inplace", [m |-> m, i |-> i, c |-> Pt(9, 9, 9)]))
EditRebind(m, i)  == /\ slot' = [slot EXCEPT ![m][i] = Len(cell) + 1] /\ cell' = Append(cell, Pt(7, 7, 7))
                     /\ Log(A("edit_rebind", [m |-> m, i |-> i, c |-> Pt(7, 7, 7)]))

Next == /\ Len(hist) < D
        /\ \/ \E p \in Patterns : Produce(p)
           \/ \E m \in 1..NM : \/ Copy(m) \/ Scale(m, R(2))
                               \/ \E t \in {Pt(1, 0, 0), Pt(0, -1, 2)} : Translate(m, t)
                               \/ \E k \in {5, 2} : Rotate(m, k)
                               \/ \E i \in 1..Len(slot[m]) : EditInPlace(m, i) \/ EditRebind(m, i)
           \/ \E a, b \in 1..NM : Merge(a, b)
Spec == Init /\ [][Next]_vars

(* ---- refinement: the heap implements value semantics ---- *)
AbsState(v) == [val |-> v, el |-> [m \in 1..Len(v) |-> NoEl]]
Refines ==
  [][ LET s == AbsState(ValOf)
          a == act'
          got == ValOf'
      IN CASE a.op = "produce" -> Len(got) = Len(ValOf) + 1 /\ \A m \in 1..Len(ValOf) : got[m] = ValOf[m]
           [] a.op = "copy"      -> got = VCopy(s, a.m).val
           [] a.op = "merge"     -> got = VMerge(s, a.ms).val
           [] a.op = "translate" -> got = VTranslate(s, a.m, a.t).val
           [] a.op = "scale"     -> got = VScale(s, a.m, a.f, Pt(0, 0, 0)).val
           [] a.op = "rotate"    -> got = VRotate(s, a.m, RotTable[a.r], Pt(0, 0, 0)).val
           [] a.op = "edit_rebind"  -> got = VEditRebind(s, a.m, a.i, a.c).val
           [] a.op = "edit_inplace" -> /\ \A m \in 1..Len(got) : m # a.m => got[m] = ValOf[m]   \* never another mesh
                                       /\ got[a.m][a.i] = a.c
           [] OTHER -> TRUE ]_vars

(* abstract coordinates only matter up to the sharing structure: hide raw reference numbers *)
Canon == [m \in 1..Len(slot) |-> [i \in 1..Len(slot[m]) |->
            <<cell[slot[m][i]],
              { <<m2, i2>> \in UNION { {m3} \X (1..Len(slot[m3])) : m3 \in 1..Len(slot) } : slot[m2][i2] = slot[m][i] }>>]]
View == <<Canon, act.op>>
Emit == EmitOn => PrintT(ToJson([k |-> "H", h |-> hist]))
=============================================================================
