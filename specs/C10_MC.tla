------------------------------- MODULE C10_MC -------------------------------
(* The two tree builders as state machines, on EVERY graph with N nodes:                       *)
(*  BFS  : queue of <<parent, child>> pairs; pop; skip if the child is seen; else record the      *)
(*         parent and push <<child, w>> for every unseen neighbour w          (edge/face/cell trees) *)
(*  KRUSKAL: take any remaining edge of minimum weight (all orders of equal weights); keep it iff   *)
(*         its ends are in different blocks                                      (minimal spanning tree) *)
(* At the end: the BFS tree reaches exactly Reach(root), has |reached|-1 edges and gives every node   *)
(* its hop distance; Kruskal's edge set is a spanning forest of minimum weight.                        *)
EXTENDS Graph
CONSTANTS N, MaxW
VARIABLES G, W, root, mode, queue, seen, parent, rest, comp, kept
vars == <<G, W, root, mode, queue, seen, parent, rest, comp, kept>>
Pairs == { <<u, v>> \in (0..(N - 1)) \X (0..(N - 1)) : u < v }
Init == \E es \in SUBSET Pairs : \E w \in [es -> 1..MaxW] : \E r \in 0..(N - 1) : \E m \in {"bfs", "kruskal"} :
          /\ G = [n |-> N, A |-> SymClose(es)] /\ W = w /\ root = r /\ mode = m
          /\ queue = [i \in 1..Cardinality({ p \in SymClose(es) : p[1] = r }) |-> <<r, 0>>]     \* placeholder, fixed below
          /\ seen = {r} /\ parent = [v \in 0..(N - 1) |-> -1]
          /\ rest = es /\ comp = [v \in 0..(N - 1) |-> v] /\ kept = {}
NbrSeq(v, sn) == LET S == { p[2] : p \in { q \in G.A : q[1] = v } } \ sn
                 IN [i \in 1..Cardinality(S) |-> <<v, CHOOSE x \in S : Cardinality({ y \in S : y < x }) = i - 1>>]
Start == /\ mode = "bfs" /\ queue # <<>> /\ queue[1][2] = 0 /\ queue[1][1] = root /\ \A i \in 1..Len(queue) : queue[i] = <<root, 0>>
         /\ queue' = NbrSeq(root, {root}) /\ UNCHANGED <<G, W, root, mode, seen, parent, rest, comp, kept>>
Pop == /\ mode = "bfs" /\ queue # <<>> /\ ~(\A i \in 1..Len(queue) : queue[i] = <<root, 0>>)
       /\ LET v == queue[1][1]
              nv == queue[1][2]
          IN IF nv \in seen THEN queue' = Tail(queue) /\ UNCHANGED <<seen, parent>>
             ELSE /\ seen' = seen \cup {nv} /\ parent' = [parent EXCEPT ![nv] = v]
                  /\ queue' = Tail(queue) \o NbrSeq(nv, seen \cup {nv})
       /\ UNCHANGED <<G, W, root, mode, rest, comp, kept>>
Take(e) == /\ mode = "kruskal" /\ e \in rest /\ \A f \in rest : W[e] <= W[f]
           /\ rest' = rest \ {e}
           /\ IF comp[e[1]] = comp[e[2]] THEN UNCHANGED <<comp, kept>>
              ELSE /\ kept' = kept \cup {e}
                   /\ comp' = [v \in 0..(N - 1) |-> IF comp[v] = comp[e[2]] THEN comp[e[1]] ELSE comp[v]]
           /\ UNCHANGED <<G, W, root, mode, queue, seen, parent>>
Next == Start \/ Pop \/ \E e \in rest : Take(e)
Spec == Init /\ [][Next]_vars
RECURSIVE DepthOf(_, _)
DepthOf(v, fuel) == IF v = root \/ fuel = 0 THEN 0 ELSE 1 + DepthOf(parent[v], fuel - 1)
BfsDone == mode = "bfs" /\ queue = <<>>
BfsCorrect == BfsDone =>
  /\ seen = Reach(G, root)
  /\ \A v \in seen \ {root} : <<parent[v], v>> \in G.A /\ parent[v] \in seen
  /\ \A v \in seen : DepthOf(v, N) = HopDist(G, root)[v]
KruskalCorrect == (mode = "kruskal" /\ rest = {}) =>
  /\ LET Wf == [p \in G.A |-> IF p \in DOMAIN W THEN W[p] ELSE W[<<p[2], p[1]>>]]
         sum(S) == LET RECURSIVE Sm(_) Sm(T) == IF T = {} THEN 0 ELSE LET x == CHOOSE y \in T : TRUE IN W[x] + Sm(T \ {x}) IN Sm(S)
     IN sum(kept) = MinForestWeight(G, Wf)
  /\ IsAcyclic(N, kept)
  /\ GComps(0..(N - 1), SymClose(kept)) = Components(G)
=============================================================================
