------------------------------ MODULE C06_Trace ------------------------------
(* Validates histories of produce / copy / merge / transform / edit calls on real meshes    *)
(* against the value semantics of C06_Values.  After every call the harness records the      *)
(* coordinates of ALL live meshes (exact rationals <<n, d>>; <<0, 0>> = not representable).    *)
EXTENDS TraceKit, C06_Values
VARIABLES ci, ei, st, nj, ns, ne

InitState(c) == [val |-> <<>>, el |-> <<>>, kind |-> <<>>]
AbsOf(s) == [val |-> s.val, el |-> s.el]
With(s, a, k) == [val |-> a.val, el |-> a.el, kind |-> IF k = "" THEN s.kind ELSE Append(s.kind, k)]

(* first mesh whose observed coordinates differ from the expected ones (0 = none) *)
IsExact(pts) == \A i \in 1..Len(pts) : \A k \in 1..3 : pts[i][k][2] > 0
(* meshes whose observed coordinates are not exactly representable (NaN after a degenerate normalize, *)
(* irrational values) are not judged: the specification only speaks about exact lattice histories     *)
FirstDiff(exp, obs) == IF Len(exp) # Len(obs) THEN -1
                       ELSE LET bad == { m \in 1..Len(exp) : IsExact(obs[m]) /\ IsExact(exp[m]) /\ exp[m] # obs[m] } IN
                            IF bad = {} THEN 0 ELSE CHOOSE m \in bad : \A m2 \in bad : m <= m2
Verdict(s, e, nxt, target, name, extra) ==
  LET d == FirstDiff(nxt.val, e.proj)
      tk == IF target \in 1..Len(nxt.kind) THEN nxt.kind[target] ELSE "?"
      resync == [nxt EXCEPT !.val = IF Len(e.proj) = Len(nxt.val) THEN e.proj ELSE nxt.val]
  IN IF target \in 1..Len(s.val) /\ ~IsExact(s.val[target]) THEN Skip(resync)
     ELSE IF e.exc # "" THEN Bad("call_succeeds", tk, e.exc, nxt)
     ELSE IF d = -1 THEN Bad("number_of_live_meshes", tk, "", nxt)
     ELSE IF d = 0 THEN (IF extra[1] THEN Ok(resync) ELSE Bad(extra[2], tk, "", resync))
     ELSE IF d = target THEN Bad(name, tk, "", resync)
     ELSE Bad("leaves_other_meshes_unchanged", tk \o "|changed:" \o nxt.kind[d], "", resync)

Judge(c, s, e) ==
  LET op == e.op
      a == AbsOf(s)
      T == <<TRUE, "">>
  IN
  CASE op = "produce" ->
         LET nxt == With(s, VProduce(a, e.pts, e.el), "gen:" \o e.gen)
         IN Verdict(s, e, nxt, Len(nxt.val), "produced_coordinates_read_back", T)
    [] op = "copy" ->
         LET nxt == With(s, VCopy(a, e.m), "copy")
         IN Verdict(s, e, nxt, Len(nxt.val), "copy_equals_source", <<e.el = s.el[e.m], "copy_has_the_same_elements">>)
    [] op = "merge" ->
         LET nxt == With(s, VMerge(a, e.ms), "merge")
             k == Len(nxt.val)
         IN Verdict(s, e, nxt, k, "merge_is_the_disjoint_union_of_vertices",
                    << e.el.F = nxt.el[k].F /\ e.el.C = nxt.el[k].C
                       /\ SeqToSet(e.el.E) = SeqToSet(nxt.el[k].E) /\ Len(e.el.E) = Len(nxt.el[k].E),
                       "merge_shifts_indices_by_running_vertex_count" >>)
    [] op = "translate" -> Verdict(s, e, With(s, VTranslate(a, e.m, e.t), ""), e.m, "translate_moves_every_vertex_exactly_once", T)
    [] op = "scale"     -> Verdict(s, e, With(s, VScale(a, e.m, e.f, e.o), ""), e.m, "scale_maps_every_vertex_exactly_once", T)
    [] op = "rotate"    -> Verdict(s, e, With(s, VRotate(a, e.m, RotTable[e.r], e.o), ""), e.m, "rotate_maps_every_vertex_exactly_once", T)
    [] op = "normalize" ->
         IF ~IsExact(s.val[e.m]) \/ RIsZero(MaxSpan(s.val[e.m]))      \* degenerate box: outside normalize's domain
         THEN Skip([s EXCEPT !.val = IF Len(e.proj) = Len(s.val) THEN e.proj ELSE s.val])
         ELSE LET nxt == With(s, VNormalize(a, e.m, e.centred = 1), "")
              IN Verdict(s, e, nxt, e.m, "normalize_is_the_documented_affine_map",
                         << Len(e.proj) = Len(nxt.val) /\ NormalizedBox(e.proj[e.m], e.centred = 1), "normalized_bounding_box" >>)
    [] op = "edit_rebind" -> Verdict(s, e, With(s, VEditRebind(a, e.m, e.i, e.c), ""), e.m, "assigning_a_vertex_changes_that_vertex_only", T)
    [] op = "edit_inplace" ->
         LET obsOk == Len(e.proj) = Len(s.val) /\ Len(e.proj[e.m]) = Len(s.val[e.m])
             nxt == IF obsOk THEN [s EXCEPT !.val[e.m] = e.proj[e.m]] ELSE s     \* the edited mesh itself: as observed
         IN Verdict(s, e, nxt, e.m, "", <<obsOk /\ e.proj[e.m][e.i] = e.c, "edited_vertex_reads_back">>)
    [] OTHER -> Bad("unknown_operation", op, "", s)

W == INSTANCE Walker
Spec == W!Spec
=============================================================================
