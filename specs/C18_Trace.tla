------------------------------ MODULE C18_Trace ------------------------------
(* One solver run is recorded as several events that share  mesh (as built), n, cotan, ns, feats, elem:            *)
(*   setup / vsetup            feature edges, face bases, frames after initialize(), faces kept fixed             *)
(*   laplacian / vlaplacian    the connection Laplacian the solver uses (dense copy, polar entries), its flat case *)
(*   field / vfield            frames after run()                                                                  *)
(*   singularities             flagged indices, edge rotations (also: op of a replayed model field, `field` given) *)
(*   invariance / vinvariance  canonical directions of a re-started / renumbered variant against the first run     *)
(* Complex numbers are recorded as polar pairs <<|z|^2, k>> (z = |z| exp(i k pi/4), k = 9 if no such k) or as      *)
(* direction records [m2, sq = <<re z^2, im z^2>>, sg = <<sign re z, sign im z>>].                                  *)
EXTENDS TraceKit, C18_FrameField
VARIABLES ci, ei, st, nj, ns, ne
InitState(c) == [x |-> 0]
One == << 1, 1 >>
Str(i) == ToString(i)

Judge(c, s, e) ==
  LET g == [P |-> e.mesh.P, F |-> e.mesh.F, E |-> e.mesh.E, C |-> <<>>]
      D == Derive(g.F, Len(g.P), g.E)
      n == e.n
      cot == e.cotan = 1
      nf == Len(g.F)
      nv == Len(g.P)
      cls == c.given.family \o "/" \o e.elem \o "/n" \o Str(n) \o (IF cot THEN "/cotan" ELSE "/uniform") \o "/s" \o Str(e.ns) \o (IF e.feats = 1 THEN "/features" ELSE "")
      BFE == BorderKeys(g, D)
      OFE == { Key(g.E[k + 1][1], g.E[k + 1][2]) : k \in SeqToSet(e.fe) }
      FE == IF e.feats = 0 \/ Planar(g) THEN BFE ELSE OFE
      FX == Fixed(g, FE)
      lat == Lattice(g) /\ SimplePairs(g, D)
      FV == UNION { {k[1], k[2]} : k \in FE }
  IN
  IF ~(IsTri(g) /\ IsManifold(D) /\ SortedEdges(g) /\ EdgesAreSides(D)) THEN Skip(s)
  ELSE IF e.exc # "" THEN Bad("solver_succeeds", cls, e.exc, s)
  ELSE
  CASE e.op = "setup" ->
         Check(<< << IF e.feats = 0 \/ Planar(g) THEN OFE = BFE /\ Len(e.fe) = Cardinality(BFE) ELSE BFE \subseteq OFE, "feature_edges_are_the_border_edges" >>,
                  << \A f \in 1..nf : e.base[f] = BaseIdx(g, FE, f), "face_basis_lies_along_its_first_feature_side" >>,
                  << \A f \in 1..nf : (f \in FX) = (e.zi[f][1] # << 0, 1 >>), "exactly_the_faces_with_a_feature_side_are_constrained" >>,
                  << \A f \in FX : e.zi[f][1] = One, "constraint_has_unit_modulus" >>,
                  << \A f \in OneFeat(g, FE) : e.zi[f] = << One, 0 >>, "one_branch_tangent_to_the_single_feature_side" >>,
                  << e.hasfixed = 0 \/ SeqToSet(e.fixed) = { f - 1 : f \in FX }, "solver_fixes_exactly_the_constrained_faces" >> >>, cls, "", s)
    [] e.op = "laplacian" ->
         IF e.herm = 2 THEN Skip(s)
         ELSE LET exact == lat /\ WeightsOk(g, D, cot)
                  L == IF exact THEN ConnLap(g, D, FE, n, cot) ELSE << >>
              IN Check(<< << e.herm = 1, "connection_laplacian_is_hermitian" >>,
                          << ~exact \/ \A a, b \in 1..nf : e.L[a][b][1] = RMul(L[a][b].w, L[a][b].w) /\ (RIsZero(L[a][b].w) \/ e.L[a][b][2] = L[a][b].k), "connection_laplacian_entries" >>,
                          << e.Lflat = << >> \/ ~(IF cot THEN DualAvail(g, D) ELSE TRUE) \/ (e.flatim = 1 /\ e.Lflat = DualLaplacian(g, D, cot)), "flat_connection_gives_the_scalar_laplacian" >> >>, cls, "", s)
    [] e.op = "field" ->
         LET exact == e.ns = 0 /\ lat /\ WeightsOk(g, D, cot) /\ FX # {} /\ FX # 1..nf /\ \A f \in FX : e.zi[f][2] % 2 = 0
                      /\ Cardinality((1..nf) \ FX) <= 8          \* exact elimination with more unknowns overflows TLC's 32-bit integers
             L == IF exact THEN TLCEval(ConnLap(g, D, FE, n, cot)) ELSE << >>
             fix == SortedSeq(FX)
             free == SortedSeq((1..nf) \ FX)
             h == IF exact /\ GaussianLap(L) THEN Harmonic(L, free, fix, [q \in 1..Len(fix) |-> Unit8(e.zi[fix[q]][2])]) ELSE [ok |-> FALSE, x |-> << >>]
             zeros == IF h.ok THEN { free[r] : r \in { q \in 1..Len(free) : CIsZero(h.x[q]) } } ELSE {}
             nonunit == { f \in 1..nf : e.z[f].m2 # One }
         IN Check(<< << nonunit = {}, "unit_modulus_on_every_element" >>,
                     << \A f \in FX : e.kept[f] = 1, "constrained_elements_keep_their_constraint" >>,
                     << ~h.ok \/ \A r \in 1..Len(free) : CIsZero(h.x[r]) \/ (e.z[free[r]].sq = Dir2(h.x[r]) /\ e.z[free[r]].sg = Signs(h.x[r])),
                        "field_is_the_normalised_harmonic_extension" >> >>,
                  cls \o (IF nonunit # {} /\ \A f \in nonunit : e.z[f].m2 = << 0, 1 >> THEN "/vanishing_frame" ELSE "")
                      \o (IF nonunit # {} /\ nonunit \subseteq zeros THEN "/harmonic_extension_vanishes" ELSE ""), "", s)
    [] e.op = "singularities" ->
         LET latfield == lat /\ \A f \in 1..nf : e.fk[f] # 9 /\ e.base[f] = BaseIdx(g, FE, f)
             tab == IF latfield THEN TLCEval(Tab(g, D, FE)) ELSE << >>
             rot == [k \in 1..Len(g.E) |-> e.rot[k][1]]
         IN Check(<< << e.field = << >> \/ e.fk = e.field, "field_is_the_one_given" >>,
                     << \A v \in InteriorVerts(g, D) : e.sing[v + 1][2] > 0 /\ Quantum(n, e.sing[v + 1]), "interior_index_is_a_whole_multiple_of_the_quantum" >>,
                     << e.sumtol = 1 /\ e.sumint = 4 * Euler(D), "indices_add_up_to_four_times_the_euler_characteristic" >>,
                     << ~latfield \/ \A k \in 1..Len(g.E) : e.rot[k][2] = 1 /\ e.rot[k][1] \in EdgeRotSetT(tab, n, e.fk, k), "edge_rotation_is_a_least_branch_matching" >>,
                     << ~latfield \/ \A v \in UsedVerts(D) : e.sing[v + 1] = IndexOf(n, HolT(tab, n, rot, v)), "flagged_index_is_the_holonomy_of_the_vertex" >> >>, cls, "", s)
    [] e.op \in {"invariance", "vinvariance"} ->
         IF e.inv = 2 THEN Skip(s)
         ELSE Check(<< << e.inv = 1, "directions_do_not_depend_on_numbering" >> >>,
                    cls \o (IF (IF Lattice(g) /\ e.op = "invariance" THEN ~DoubleOk(g, FE, n) ELSE e.compat = 0) THEN "/incompatible_double_constraint" ELSE ""), "", s)
    [] e.op = "vsetup" ->
         Check(<< << (OFE = BFE /\ Len(e.fe) = Cardinality(BFE)) \/ (e.feats = 1 /\ ~Planar(g) /\ BFE \subseteq OFE), "feature_edges_are_the_border_edges" >>,
                  << SeqToSet(e.fv) = FV, "feature_vertices_are_their_end_points" >>,
                  << \A v \in 0..(nv - 1) : e.zi[v + 1][1] # << 0, 1 >> => v \in FV, "only_feature_vertices_are_constrained" >>,
                  << \A v \in FV : e.zi[v + 1][1] \in { One, << 0, 1 >> }, "constraint_has_unit_modulus" >> >>, cls, "", s)     \* contributions that cancel leave no constraint: the vertex is then judged by unit_modulus
    [] e.op = "vlaplacian" ->
         IF e.herm = 2 THEN Skip(s)
         ELSE LET avail == IF cot THEN CotAvail(g, D) ELSE TRUE
                  S == IF avail THEN TLCEval(IF cot THEN Stiffness(g, D) ELSE UniformStiffness(g, D)) ELSE << >>
                  small == avail /\ \A i, j \in 1..nv : AbsI(S[i][j][1]) < 30000 /\ S[i][j][2] < 30000          \* squares stay within TLC's 32-bit integers
              IN Check(<< << e.herm = 1, "connection_laplacian_is_hermitian" >>,
                          << ~small \/ (e.Ldiag = [i \in 1..nv |-> S[i][i]] /\ e.Labs2 = [i \in 1..nv |-> [j \in 1..nv |-> RMul(S[i][j], S[i][j])]]), "connection_laplacian_has_the_moduli_of_the_scalar_laplacian" >>,
                          << e.Lflat = << >> \/ ~avail \/ (e.flatim = 1 /\ e.Lflat = S), "flat_connection_gives_the_scalar_laplacian" >> >>, cls, "", s)
    [] e.op = "vfield" ->
         LET nonunit == { v \in UsedVerts(D) : e.z[v + 1].m2 # One } IN
         Check(<< << nonunit = {}, "unit_modulus_on_every_element" >>,
                  << \A v \in FV : e.kept[v + 1] = 1, "constrained_elements_keep_their_constraint" >>,
                  << e.harm # 0, "field_is_the_normalised_harmonic_extension" >> >>,
               cls \o (IF nonunit # {} /\ \A v \in nonunit : e.z[v + 1].m2 = << 0, 1 >> THEN "/vanishing_frame" ELSE ""), "", s)
    [] OTHER -> Bad("unknown_operation", e.op, "", s)
W0 == INSTANCE Walker
Spec == W0!Spec
=============================================================================
