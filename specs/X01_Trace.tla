------------------------------ MODULE X01_Trace ------------------------------
(* events:  iter       name, L (integers), k, ret                                                             *)
(*          polyline   nv, E (edges as built), v2v, v2e (per vertex), eid (rows a, columns b), other (rows e, columns v), e2v *)
(*          interp     mesh [P, F, E], name, weight, inp (input attribute, integers), out (exact rationals), warm      *)
EXTENDS TraceKit, X01_Aux
VARIABLES ci, ei, st, nj, ns, ne
InitState(c) == [x |-> 0]
NoneOr(x) == x
Judge(c, s, e) ==
  IF e.exc # "" THEN Bad("call_succeeds", e.op, e.exc, s)
  ELSE
  CASE e.op = "iter" ->
         LET want == CASE e.name = "cyclic_pairs" -> CyclicPairs(e.L) [] e.name = "cyclic_pairs_enumerate" -> CyclicPairsEnum(e.L)
                       [] e.name = "cyclic_triplets" -> CyclicTriplets(e.L) [] e.name = "consecutive_pairs" -> ConsecutivePairs(e.L)
                       [] e.name = "consecutive_triplets" -> ConsecutiveTriplets(e.L) [] e.name = "cyclic_permutations" -> CyclicPermutations(e.L)
                       [] e.name = "cyclic_perm_enumerate" -> CyclicPermEnum(e.L) [] e.name = "offset" -> Offset(e.L, e.k)
         IN Check(<< << e.ret = want, "helper_yields_the_documented_sequence" >> >>, e.name, "", s)
    [] e.op = "polyline" ->
         LET E == e.E
             nv == e.nv
         IN Check(<< << \A v \in 0..(nv - 1) : SeqToSet(e.v2v[v + 1]) = PLNeighbours(E, v) /\ Len(e.v2v[v + 1]) = Cardinality(PLNeighbours(E, v)), "neighbours_are_the_other_ends_of_the_incident_edges_once" >>,
                     << \A v \in 0..(nv - 1) : Len(e.v2e[v + 1]) = Len(e.v2v[v + 1]) /\ \A i \in 1..Len(e.v2v[v + 1]) : e.v2e[v + 1][i] = PLEdgeId(E, v, e.v2v[v + 1][i]), "incident_edges_listed_in_the_order_of_the_neighbours" >>,
                     << \A a, b \in 0..(nv - 1) : e.eid[a + 1][b + 1] = PLEdgeId(E, a, b), "edge_id_is_the_position_in_the_edge_list_or_none" >>,
                     << \A k \in 0..(Len(E) - 1) : \A v \in 0..(nv - 1) : e.other[k + 1][v + 1] = PLOtherEnd(E, k, v), "other_end_of_an_edge" >>,
                     << e.e2v = E, "edge_to_vertices_is_the_edge" >> >>, "polyline", "", s)
    [] e.op = "interp" ->
         LET g == [P |-> e.mesh.P, F |-> e.mesh.F, E |-> e.mesh.E, C |-> << >>]
             D == Derive(g.F, Len(g.P), g.E)
             inp == [i \in 1..Len(e.inp) |-> R(e.inp[i])]
             nm == e.name \o "/" \o e.weight \o (IF e.warm = 1 THEN "/attributes_cached" ELSE "")
             ok == IsManifold(D) /\ (e.weight # "area" \/ AreaAvail(g)) /\ (e.weight # "angle" \/ AnglesAvail(g, D)) /\ NoIsolated(g)
             want == CASE e.name = "vertices_to_faces" -> V2FMean(g, inp)
                       [] e.name = "faces_to_vertices" -> (CASE e.weight = "uniform" -> F2VUniform(g, inp) [] e.weight = "sum" -> F2VSum(g, inp)
                                                             [] e.weight = "area" -> F2VArea(g, inp) [] e.weight = "angle" -> F2VAngle(g, D, inp))
                       [] e.name = "vertices_to_corners" -> V2Corners(D, inp)
                       [] e.name = "faces_to_corners" -> F2Corners(D, inp)
                       [] e.name = "corners_to_vertices" -> (CASE e.weight = "uniform" -> C2VUniform(g, D, inp) [] e.weight = "sum" -> C2VSum(g, D, inp) [] e.weight = "angle" -> C2VAngle(g, D, inp))
                       [] e.name = "corners_to_faces" -> (CASE e.weight = "uniform" -> C2FUniform(g, D, inp) [] e.weight = "sum" -> C2FSum(g, D, inp) [] e.weight = "angle" -> C2FAngle(g, D, inp))
         IN IF ~ok THEN Skip(s) ELSE Check(<< << e.out = want, "interpolated_attribute_is_the_documented_weighted_mean" >> >>, nm, "", s)
    [] OTHER -> Bad("unknown_operation", e.op, "", s)
W0 == INSTANCE Walker
Spec == W0!Spec
=============================================================================
