CONSTANTS
  Surface = "octahedron"
  MaxS = 2
  MaxT = 2
SPECIFICATION Spec
INVARIANT CutIsADisk
INVARIANT DualTreeSpans
CHECK_DEADLOCK FALSE
