------------------------------ MODULE MeshCore ------------------------------
(* "Direct inspection of the face list": every combinatorial notion of a polygon surface  *)
(* defined from the face list alone.  Ids are the library's (0-based vertices, faces,      *)
(* corners, edges); None is -1.  A face list F is a sequence of sequences of vertex ids;    *)
(* corner ids number the face-vertex incidences in face order.                              *)
(*                                                                                          *)
(* TLC does not memoise operator applications, so everything that is used repeatedly is     *)
(* derived ONCE into a record D = Derive(F, nv, E) and all other operators take D.           *)
EXTENDS Naturals, Integers, Sequences, FiniteSets, TLC, SequencesExt, FiniteSetsExt, Functions

None == -1
Min2(a, b) == IF a < b THEN a ELSE b
Max2(a, b) == IF a < b THEN b ELSE a
Key(u, v) == <<Min2(u, v), Max2(u, v)>>
SeqSet(q) == { q[i] : i \in 1..Len(q) }
NoDup(q) == Cardinality(SeqSet(q)) = Len(q)
Rev(q) == [i \in 1..Len(q) |-> q[Len(q) + 1 - i]]
IsRotation(a, b) ==      \* a is a cyclic rotation of b
  /\ Len(a) = Len(b)
  /\ (Len(a) = 0 \/ \E k \in 0..(Len(a) - 1) : \A i \in 1..Len(a) : a[i] = b[((i - 1 + k) % Len(b)) + 1])

RECURSIVE OffsetsFrom(_, _, _)
OffsetsFrom(F, f, acc) == IF f > Len(F) THEN <<>> ELSE <<acc>> \o OffsetsFrom(F, f + 1, acc + Len(F[f]))

(* transitive closure helper: grow a set of nodes along a relation given as a set of pairs *)
RECURSIVE Grow(_, _)
Grow(S, R) == LET T == S \cup { p[2] : p \in { q \in R : q[1] \in S } }
              IN IF T = S THEN S ELSE Grow(T, R)
RECURSIVE CompsOf(_, _)
CompsOf(nodes, R) ==      \* R symmetric
  IF nodes = {} THEN {}
  ELSE LET x == CHOOSE n \in nodes : TRUE
           c == Grow({x}, R)
       IN {c} \cup CompsOf(nodes \ c, { p \in R : p[1] \notin c })
Sym(R) == R \cup { <<p[2], p[1]>> : p \in R }

Derive(F, nv, E) ==
  LET nf  == Len(F)
      off == OffsetsFrom(F, 1, 0)                       \* off[f+1] = first corner of face f
      cn  == FlattenSeq([f \in 1..nf |->                 \* cn[c+1] = the corner record of corner c
                [i \in 1..Len(F[f]) |->
                   [c |-> off[f] + i - 1, f |-> f - 1, i |-> i - 1, n |-> Len(F[f]),
                    v |-> F[f][i], nx |-> F[f][(i % Len(F[f])) + 1],
                    pv |-> F[f][((i + Len(F[f]) - 2) % Len(F[f])) + 1]]]])
      H   == SeqSet(cn)                                  \* one half-edge (v -> nx) per corner
      DE  == { <<h.v, h.nx>> : h \in H }
      hm  == [k \in DE |-> CHOOSE h \in H : h.v = k[1] /\ h.nx = k[2]]
      ES  == { Key(k[1], k[2]) : k \in DE }
      eid == [k \in { Key(E[j][1], E[j][2]) : j \in 1..Len(E) } |->
                 (CHOOSE j \in 1..Len(E) : Key(E[j][1], E[j][2]) = k) - 1]
      cv  == [v \in 0..(nv - 1) |-> { h.c : h \in { g \in H : g.v = v } }]
  IN [F |-> F, nv |-> nv, nf |-> nf, nc |-> Len(cn), E |-> E, off |-> off, cn |-> cn, H |-> H,
      DE |-> DE, hm |-> hm, ES |-> ES, eid |-> eid, cv |-> cv]

(* ------------------------------ validity ------------------------------ *)
InRangeF(D)   == \A f \in 1..D.nf : Len(D.F[f]) >= 3 /\ NoDup(D.F[f]) /\ \A i \in 1..Len(D.F[f]) : D.F[f][i] \in 0..(D.nv - 1)
IsOriented(D) == Cardinality(D.DE) = Cardinality(D.H)    \* every directed edge used by at most one face
HasHE(D, u, v) == <<u, v>> \in D.DE
EdgesAreSides(D) == /\ { Key(D.E[j][1], D.E[j][2]) : j \in 1..Len(D.E) } = D.ES
                    /\ Len(D.E) = Cardinality(D.ES)

(* ------------------------------ corners ------------------------------ *)
Cn(D, c)      == D.cn[c + 1]
NextC(D, c)   == LET h == Cn(D, c) IN D.off[h.f + 1] + ((h.i + 1) % h.n)
PrevC(D, c)   == LET h == Cn(D, c) IN D.off[h.f + 1] + ((h.i + h.n - 1) % h.n)
OppC(D, c)    == LET h == Cn(D, c) IN IF HasHE(D, h.nx, h.v) THEN D.hm[<<h.nx, h.v>>].c ELSE None
StepS(D, c)   == LET p == PrevC(D, c) IN OppC(D, p)                 \* opposite(previous(c))
StepT(D, c)   == LET o == OppC(D, c) IN IF o = None THEN None ELSE NextC(D, o)   \* next(opposite(c))
HE2C(D, u, v) == IF HasHE(D, u, v) THEN D.hm[<<u, v>>].c ELSE None
DirectFace(D, u, v) == IF HasHE(D, u, v) THEN D.hm[<<u, v>>].f ELSE None
DirectFaceInds(D, u, v) == IF HasHE(D, u, v) THEN LET h == D.hm[<<u, v>>] IN <<h.f, h.i, (h.i + 1) % h.n>>
                           ELSE <<None, None, None>>
OppositeFace(D, u, v, f) == LET a == DirectFace(D, u, v)
                                b == DirectFace(D, v, u)
                            IN IF f = a THEN b ELSE IF f = b THEN a ELSE None
IsEdge(D, u, v)   == Key(u, v) \in D.ES
EdgeId(D, u, v)   == IF Key(u, v) \in DOMAIN D.eid THEN D.eid[Key(u, v)] ELSE None
IsInteriorEdge(D, u, v) == HasHE(D, u, v) /\ HasHE(D, v, u)
IsBorderEdge(D, u, v) == IsEdge(D, u, v) /\ (~HasHE(D, u, v) \/ ~HasHE(D, v, u))
BorderVerts(D)    == UNION { {k[1], k[2]} : k \in { d \in D.DE : ~HasHE(D, d[2], d[1]) } }
SharedEdges(D, f, g) == { Key(h.v, h.nx) : h \in { x \in D.H : x.f = f /\ DirectFace(D, x.nx, x.v) = g } }
FaceNeighbours(D, f) == { DirectFace(D, h.nx, h.v) : h \in { x \in D.H : x.f = f /\ HasHE(D, x.nx, x.v) } }


(* ------------------------------ faces ------------------------------ *)
At0(D, f, i) == IF f \in 0..(D.nf - 1) /\ i \in 0..(Len(D.F[f + 1]) - 1) THEN D.F[f + 1][i + 1] ELSE None
FaceIdsOf(D, verts) == { f \in 0..(D.nf - 1) : SeqSet(D.F[f + 1]) = SeqSet(verts) /\ Len(D.F[f + 1]) = Len(verts) }
FaceIdOk(D, verts, r) == IF FaceIdsOf(D, verts) = {} THEN r = None ELSE r \in FaceIdsOf(D, verts)
CornerOfVF(D, v, f) == LET cs == { h \in D.H : h.v = v /\ h.f = f } IN IF cs = {} THEN None ELSE (CHOOSE h \in cs : TRUE).c
IndexInFace(D, f, v) == LET cs == { h \in D.H : h.v = v /\ h.f = f } IN IF cs = {} THEN None ELSE (CHOOSE h \in cs : TRUE).i

(* ------------------------------ vertex fans ------------------------------ *)
(* canonical ring of corners around v: start where StepT is undefined (border) or at the   *)
(* smallest corner, then follow StepS; fuel bounds the walk on non-manifold input           *)
RECURSIVE Walk(_, _, _, _)
Walk(D, c, first, fuel) ==
  LET n == StepS(D, c) IN
  IF n = None \/ n = first \/ fuel = 0 THEN <<c>> ELSE <<c>> \o Walk(D, n, first, fuel - 1)
RingOf(D, v) ==
  IF D.cv[v] = {} THEN <<>>
  ELSE LET starts == { c \in D.cv[v] : StepT(D, c) = None }
           s == IF starts = {} THEN Min(D.cv[v]) ELSE Min(starts)
       IN Walk(D, s, s, Cardinality(D.cv[v]))
IsVertexManifold(D) == \A v \in 0..(D.nv - 1) :
                          LET r == RingOf(D, v) IN SeqSet(r) = D.cv[v] /\ Len(r) = Cardinality(D.cv[v])
IsManifold(D) == InRangeF(D) /\ IsOriented(D) /\ IsVertexManifold(D)

IsBorderVertex(D, v) == \E c \in D.cv[v] : StepT(D, c) = None
(* vertices around v in the order of the canonical corner ring; one more than corners on the border *)
VRingOf(D, v) ==
  LET r == RingOf(D, v) IN
  IF r = <<>> THEN <<>>
  ELSE [k \in 1..Len(r) |-> Cn(D, r[k]).nx] \o (IF IsBorderVertex(D, v) THEN <<Cn(D, r[Len(r)]).pv>> ELSE <<>>)
Neighbours(D, v) == { k[2] : k \in { d \in D.DE : d[1] = v } } \cup { k[1] : k \in { d \in D.DE : d[2] = v } }

(* direction of an observed ring w.r.t. the canonical one: "fwd", "rev", "amb" (too short to tell), "bad" *)
RingDir(obs, canon) ==
  IF Len(obs) # Len(canon) THEN "bad"
  ELSE IF Len(canon) <= 2 THEN (IF SeqSet(obs) = SeqSet(canon) /\ NoDup(obs) THEN "amb" ELSE "bad")
  ELSE IF IsRotation(obs, canon) THEN "fwd"
  ELSE IF IsRotation(obs, Rev(canon)) THEN "rev" ELSE "bad"

(* ------------------------------ global topology ------------------------------ *)
FaceAdj(D)     == { <<h.f, D.hm[<<h.nx, h.v>>].f>> : h \in { x \in D.H : HasHE(D, x.nx, x.v) } }
NComponents(D) == Cardinality(CompsOf(0..(D.nf - 1), Sym(FaceAdj(D))))
UsedVerts(D)   == { h.v : h \in D.H }
Euler(D)       == Cardinality(UsedVerts(D)) - Cardinality(D.ES) + D.nf
BorderHE(D)    == { d \in D.DE : ~HasHE(D, d[2], d[1]) }
NBorderLoops(D) == LET B == BorderHE(D)
                   IN Cardinality(CompsOf(B, Sym({ p \in B \X B : p[1][2] = p[2][1] })))
IsClosed(D)    == BorderHE(D) = {}
IsDisk(D)      == NComponents(D) = 1 /\ NBorderLoops(D) = 1 /\ Euler(D) = 1
=============================================================================
