--------------------------- MODULE C12_Primitives ---------------------------
(* Exact algebra of boxes, vectors and angles on integer / rational inputs.                 *)
(* Boxes are records [lo, hi] of equal-length integer sequences; points are integer          *)
(* sequences; results are exact rationals <<n, d>> (Rat).  Euclidean lengths appear squared,  *)
(* angles through cos^2 and the sign of cos (both rational for lattice inputs).               *)
EXTENDS Rotations, FiniteSets, TLC

Dim(b) == Len(b.lo)
Clamp(x, l, h) == IF x < l THEN l ELSE IF x > h THEN h ELSE x
Contains(b, p)   == \A i \in 1..Dim(b) : b.lo[i] <= p[i] /\ p[i] < b.hi[i]          \* half-open, as documented
InClosed(b, p)   == \A i \in 1..Dim(b) : b.lo[i] <= p[i] /\ p[i] <= b.hi[i]
Project(b, p)    == [i \in 1..Dim(b) |-> Clamp(p[i], b.lo[i], b.hi[i])]
Gap(b, p)        == [i \in 1..Dim(b) |-> LET c == Clamp(p[i], b.lo[i], b.hi[i]) IN IF p[i] > c THEN p[i] - c ELSE c - p[i]]
RECURSIVE ISum(_)
ISum(q) == IF q = <<>> THEN 0 ELSE q[1] + ISum(Tail(q))
RECURSIVE IMax(_)
IMax(q) == IF Len(q) = 1 THEN q[1] ELSE LET m == IMax(Tail(q)) IN IF q[1] > m THEN q[1] ELSE m
DistL1(b, p)   == ISum(Gap(b, p))
DistLinf(b, p) == IMax(Gap(b, p))
DistL2sq(b, p) == ISum([i \in 1..Dim(b) |-> Gap(b, p)[i] * Gap(b, p)[i]])
Mn(a, b) == IF a < b THEN a ELSE b
Mx(a, b) == IF a < b THEN b ELSE a
Union(a, b) == [lo |-> [i \in 1..Dim(a) |-> Mn(a.lo[i], b.lo[i])], hi |-> [i \in 1..Dim(a) |-> Mx(a.hi[i], b.hi[i])]]
Inter(a, b) == [lo |-> [i \in 1..Dim(a) |-> Mx(a.lo[i], b.lo[i])], hi |-> [i \in 1..Dim(a) |-> Mn(a.hi[i], b.hi[i])]]
DoIntersect(a, b) == \A i \in 1..Dim(a) : Inter(a, b).hi[i] - Inter(a, b).lo[i] >= 0
BoxOf(pts) == [lo |-> [i \in 1..Len(pts[1]) |-> CHOOSE m \in { pts[k][i] : k \in 1..Len(pts) } : \A k \in 1..Len(pts) : m <= pts[k][i]],
               hi |-> [i \in 1..Len(pts[1]) |-> CHOOSE m \in { pts[k][i] : k \in 1..Len(pts) } : \A k \in 1..Len(pts) : m >= pts[k][i]]]
IsEmptyBox(b) == \E i \in 1..Dim(b) : b.lo[i] >= b.hi[i]

(* integer vectors *)
IDot(u, v) == ISum([i \in 1..Len(u) |-> u[i] * v[i]])
ICross(u, v) == << u[2] * v[3] - u[3] * v[2], u[3] * v[1] - u[1] * v[3], u[1] * v[2] - u[2] * v[1] >>
ISub(u, v) == [i \in 1..Len(u) |-> u[i] - v[i]]
Det2(u, v) == u[1] * v[2] - u[2] * v[1]
Det3(a, b, c) == a[1] * b[2] * c[3] + a[2] * b[3] * c[1] + a[3] * b[1] * c[2]
               - a[1] * b[3] * c[2] - a[2] * b[1] * c[3] - a[3] * b[2] * c[1]
Sgn(x) == IF x > 0 THEN 1 ELSE IF x < 0 THEN -1 ELSE 0
(* angle between u and v: <<cos^2, sign of cos>>, both exact *)
Cos2(u, v) == Norm(<<IDot(u, v) * IDot(u, v), IDot(u, u) * IDot(v, v)>>)
CosSign(u, v) == Sgn(IDot(u, v))
Cot2(u, v) == LET c == ICross(u, v) IN Norm(<<IDot(u, v) * IDot(u, v), IDot(c, c)>>)

(* circumcentre C of the triangle A B C is characterised by: equidistant and coplanar *)
RV(p) == [i \in 1..Len(p) |-> R(p[i])]
D2(p, q) == VDot(VSub(p, q), VSub(p, q))
Equidistant(c, A, B, C) == D2(c, RV(A)) = D2(c, RV(B)) /\ D2(c, RV(A)) = D2(c, RV(C))
IsCircumcentre(c, A, B, C) ==          \* the textbook definition (used by C07)
  /\ Equidistant(c, A, B, C)
  /\ RIsZero(VDot(VSub(c, RV(A)), RV(ICross(ISub(B, A), ISub(C, A)))))

(* angles as rational multiples of pi: r == angle / pi *)
RMod2(r) == LET k == (r[1] \div (2 * r[2])) IN RSub(r, R(2 * k))          \* into [0, 2)
Congruent2(r, s) == RMod2(RSub(r, s)) = R(0)
InMinus1To1(r) == RLe(R(-1), r) /\ RLe(r, R(1))
=============================================================================
