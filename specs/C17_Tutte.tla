------------------------------ MODULE C17_Tutte ------------------------------
(* Tutte's embedding: where the border goes and what a valid result looks like.                  *)
(* Square target: the n border vertices (in border order, k = 0..n-1) are sent to the perimeter of the   *)
(* unit square; corners at k = 0, n div 4, n div 2, 3n div 4, the others spaced by 4/n along their side.   *)
(* AsBuilt = TRUE reproduces the pinned source, whose offset restarts at 0 after each corner.               *)
EXTENDS C08_Operators

SqPos(n, k, asBuilt) ==
  LET c1 == n \div 4
      c2 == n \div 2
      c3 == (3 * n) \div 4
      off == IF asBuilt THEN 0 ELSE 1
  IN IF k = 0 THEN <<R(0), R(0)>> ELSE IF k = c1 THEN <<R(1), R(0)>> ELSE IF k = c2 THEN <<R(1), R(1)>> ELSE IF k = c3 THEN <<R(0), R(1)>>
     ELSE IF k < c1 THEN << Norm(<<4 * k, n>>), R(0) >>
     ELSE IF k < c2 THEN << R(1), Norm(<<4 * (k - c1 - 1 + off), n>>) >>
     ELSE IF k < c3 THEN << RSub(R(1), Norm(<<4 * (k - c2 - 1 + off), n>>)), R(1) >>
     ELSE << R(0), RSub(R(1), Norm(<<4 * (k - c3 - 1 + off), n>>)) >>
(* perimeter parameter in [0, 4) of a point of the unit square's boundary, <<-1,1>> if it is not on it *)
Perim(p) == IF p[2] = R(0) /\ RLe(R(0), p[1]) /\ RLt(p[1], R(1)) THEN p[1]
            ELSE IF p[1] = R(1) /\ RLe(R(0), p[2]) /\ RLt(p[2], R(1)) THEN RAdd(R(1), p[2])
            ELSE IF p[2] = R(1) /\ RLt(R(0), p[1]) /\ RLe(p[1], R(1)) THEN RAdd(R(2), RSub(R(1), p[1]))
            ELSE IF p[1] = R(0) /\ RLt(R(0), p[2]) /\ RLe(p[2], R(1)) THEN RAdd(R(3), RSub(R(1), p[2]))
            ELSE <<-1, 1>>
(* angles as rational multiples of pi *)
RMod2(r) == LET k == (r[1] \div (2 * r[2])) IN RSub(r, R(2 * k))          \* into [0, 2)
Congruent2(r, q) == RMod2(RSub(r, q)) = R(0)
(* a cyclic sequence of parameters is strictly monotone with exactly one wrap (either direction) *)
Descents(q) == Cardinality({ i \in 1..Len(q) : RLe(q[(i % Len(q)) + 1], q[i]) })
Ascents(q)  == Cardinality({ i \in 1..Len(q) : RLe(q[i], q[(i % Len(q)) + 1]) })
CyclicMonotone(q) == Len(q) >= 3 /\ (Descents(q) = 1 \/ Ascents(q) = 1) /\ Cardinality({ q[i] : i \in 1..Len(q) }) = Len(q)
=============================================================================
