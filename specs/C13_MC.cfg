CONSTANTS
  AsBuilt = {}
  D = 6
  EmitOn = TRUE
SPECIFICATION Spec
INVARIANT InputIntact
INVARIANT ResultValid
CONSTRAINT Emit
VIEW View
CHECK_DEADLOCK FALSE
