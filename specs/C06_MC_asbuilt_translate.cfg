CONSTANTS
  AsBuilt = {"translate_in_place"}
  MaxMesh = 3
  D = 4
  EmitOn = FALSE
SPECIFICATION Spec
PROPERTY Refines
CONSTRAINT Emit
VIEW View
CHECK_DEADLOCK FALSE
