CONSTANTS
  NP = 4
  Dim = 2
  Leaf = 1
  AsBuilt = FALSE
SPECIFICATION Spec
INVARIANT KNearest
CHECK_DEADLOCK FALSE
