CONSTANTS
  NP = 4
  Dim = 2
  Leaf = 2
  Strategy = "random"
  AsBuilt = FALSE
  EmitOn = TRUE
SPECIFICATION Spec
INVARIANT Partition
INVARIANT BoundedSplits
INVARIANT Emit
PROPERTY Terminates
CHECK_DEADLOCK FALSE
