------------------------------- MODULE C07_MC -------------------------------
(* Theorems about the definitions, checked on lattice meshes and every motion of a family:       *)
(*   squared lengths scale with s^2, squared areas with s^4, volumes with |s|^3; angle, cotangent and   *)
(*   defect surrogates are invariant; unit normals rotate with the mesh; the three corner angles of a     *)
(*   lattice triangle add up to pi (4 * pi/4); angle defects add up to 2 * pi * chi.                        *)
EXTENDS C07_Quantities
VARIABLES mesh, M, s, t
Grid2 == [P |-> << <<0,0,0>>, <<1,0,0>>, <<2,0,0>>, <<0,1,0>>, <<1,1,0>>, <<2,1,0>>, <<0,2,0>>, <<1,2,0>>, <<2,2,0>> >>,
          F |-> << <<0,1,4>>, <<0,4,3>>, <<1,2,5>>, <<1,5,4>>, <<3,4,7>>, <<3,7,6>>, <<4,5,8>>, <<4,8,7>> >>, C |-> <<>>]
Cube == [P |-> << <<0,0,0>>, <<1,0,0>>, <<1,1,0>>, <<0,1,0>>, <<0,0,1>>, <<1,0,1>>, <<1,1,1>>, <<0,1,1>> >>,
         F |-> << <<0,2,1>>, <<0,3,2>>, <<0,1,5>>, <<0,5,4>>, <<1,2,6>>, <<1,6,5>>, <<2,3,7>>, <<2,7,6>>, <<3,0,4>>, <<3,4,7>>, <<4,5,6>>, <<4,6,7>> >>, C |-> <<>>]
Tri345 == [P |-> << <<0,0,0>>, <<3,0,0>>, <<0,4,0>>, <<3,4,0>> >>, F |-> << <<0,1,2>>, <<1,3,2>> >>, C |-> <<>>]
Tet == [P |-> << <<0,0,0>>, <<2,0,0>>, <<0,3,0>>, <<1,1,4>> >>, F |-> << <<1,3,2>>, <<0,2,3>>, <<3,1,0>>, <<0,1,2>> >>, C |-> << <<0,1,2,3>> >>]
WithE(g) == [g EXCEPT !.P = g.P] @@ [E |-> SetToSeq(UNION { { Key(g.F[k][i], g.F[k][(i % Len(g.F[k])) + 1]) : i \in 1..Len(g.F[k]) } : k \in 1..Len(g.F) })]
Mats == { << <<1,0,0>>, <<0,1,0>>, <<0,0,1>> >>, << <<0,-1,0>>, <<1,0,0>>, <<0,0,1>> >>, << <<0,0,1>>, <<1,0,0>>, <<0,1,0>> >>,
          << <<-1,0,0>>, <<0,-1,0>>, <<0,0,1>> >>, << <<1,0,0>>, <<0,0,-1>>, <<0,1,0>> >>, << <<0,1,0>>, <<0,0,1>>, <<1,0,0>> >> }
Init == mesh \in {WithE(Grid2), WithE(Cube), WithE(Tri345), WithE(Tet)} /\ M \in Mats /\ s \in {1, 2, 3} /\ t \in { <<0,0,0>>, <<1,-2,3>> }
Next == UNCHANGED <<mesh, M, s, t>>
Spec == Init /\ [][Next]_<<mesh, M, s, t>>
g2 == Motion(mesh, M, s, t)
D1 == Derive(mesh.F, Len(mesh.P), mesh.E)
Invariance ==
  /\ \A e \in 1..Len(mesh.E) : LET d1 == ISub(Pt(mesh, mesh.E[e][1]), Pt(mesh, mesh.E[e][2]))
                                   d2 == ISub(Pt(g2, mesh.E[e][1]), Pt(g2, mesh.E[e][2]))
                               IN IDt(d2, d2) = s * s * IDt(d1, d1)
  /\ \A f \in 1..Len(mesh.F) : /\ Area2x4(g2, f) = s * s * s * s * Area2x4(mesh, f)
                               /\ FaceN(g2, f) = << s * s * MatI(M, FaceN(mesh, f))[1], s * s * MatI(M, FaceN(mesh, f))[2], s * s * MatI(M, FaceN(mesh, f))[3] >>
                               /\ UnitSurrogate(FaceN(g2, f)) = UnitSurrogate(MatI(M, FaceN(mesh, f)))
  /\ \A c \in 0..(D1.nc - 1) : LET a == CornerVecs(mesh, D1, c)
                                   b == CornerVecs(g2, D1, c)
                               IN AngSurrogate(a[1], a[2]) = AngSurrogate(b[1], b[2]) /\ CotSurrogate(a[1], a[2]) = CotSurrogate(b[1], b[2])
                                  /\ AngK(a[1], a[2]) = AngK(b[1], b[2])
  /\ \A c \in 1..Len(mesh.C) : CellVol(g2, c) = RMul(R(s * s * s), CellVol(mesh, c))
AngleSums ==
  /\ \A f \in 1..Len(mesh.F) : (Len(mesh.F[f]) = 3 /\ \A i \in 0..2 : CornerK(mesh, D1, D1.off[f] + i) # 0)
                                  => ISumI([i \in 1..3 |-> CornerK(mesh, D1, D1.off[f] + i - 1)]) = 4
  /\ (\A v \in 0..(Len(mesh.P) - 1) : AllK(mesh, D1, v))
        => RSum([v \in 1..Len(mesh.P) |-> Defect(mesh, D1, v - 1, FALSE)]) = R(2 * Euler(D1))
=============================================================================
