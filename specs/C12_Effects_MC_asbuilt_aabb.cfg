CONSTANTS
  AsBuilt = {"aabb_wraps_args"}
  D = 5
  EmitOn = FALSE
SPECIFICATION Spec
PROPERTY NoSideEffects
CONSTRAINT Emit
VIEW View
CHECK_DEADLOCK FALSE
