CONSTANTS
  AsBuilt = FALSE
SPECIFICATION Spec
INVARIANT SquareAssignmentOk
CHECK_DEADLOCK FALSE
