------------------------------- MODULE C19_MC -------------------------------
(* de Casteljau = Bernstein, end-point interpolation and the bounding property, for every control polygon of  *)
(* 2..4 points with coordinates in 0..2 (dimension 1-2) and every parameter k/4.                                 *)
EXTENDS C19_Bezier
VARIABLES P, k
Init == \E n \in 2..4, d \in 1..2 : P \in [1..n -> [1..d -> 0..2]] /\ k \in 0..4
Next == UNCHANGED <<P, k>>
Spec == Init /\ [][Next]_<<P, k>>
Q == [i \in 1..Len(P) |-> RPt(P[i])]
t == <<k, 4>>
Theorems == /\ DeCasteljau(Q, Norm(t)) = Bernstein(Q, Norm(t))
            /\ Bernstein(Q, R(0)) = Q[1] /\ Bernstein(Q, R(1)) = Q[Len(Q)]
            /\ InBounds(Bernstein(Q, Norm(t)), Q)
=============================================================================
