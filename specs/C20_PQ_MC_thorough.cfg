CONSTANTS
  NI = 5
  D = 9
  EmitOn = TRUE
SPECIFICATION Spec
INVARIANT Invariant
PROPERTY PopRefines
CONSTRAINT Emit
VIEW View
CHECK_DEADLOCK FALSE
