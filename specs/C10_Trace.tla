------------------------------ MODULE C10_Trace ------------------------------
(* Judges spanning trees / forests computed by the real library.                              *)
(* given = [kind ("polyline"|"surface"|"volume"), n, E, F, C, P, family]                         *)
(* event = [op, over ("vertices"|"faces"|"cells"), root, avoid_boundary, excluded (edge / face ids),  *)
(*          mode, W (weight per edge id), parent, children, edges, bfs, dfs, roots, trees, exc]       *)
EXTENDS TraceKit, Graph, MeshCore, TetCore
VARIABLES ci, ei, st, nj, ns, ne

PairSet(q) == { <<q[k][1], q[k][2]>> : k \in 1..Len(q) }
ISqrt(x) == CHOOSE k \in 0..x : k * k = x
Len2(P, u, v) == (P[u + 1][1] - P[v + 1][1]) * (P[u + 1][1] - P[v + 1][1]) + (P[u + 1][2] - P[v + 1][2]) * (P[u + 1][2] - P[v + 1][2])
                 + (P[u + 1][3] - P[v + 1][3]) * (P[u + 1][3] - P[v + 1][3])
InitState(c) ==
  LET g == c.given IN
  [g |-> g, D |-> IF g.kind = "surface" THEN Derive(g.F, g.n, g.E) ELSE <<>>,
   T |-> IF g.kind = "volume" THEN DeriveT(g.C, g.F, g.E, g.n) ELSE <<>>]

(* the admissible graph of an event *)
BorderEdgeIds(s) == IF s.g.kind = "surface" THEN { k - 1 : k \in { j \in 1..Len(s.g.E) : IsBorderEdge(s.D, s.g.E[j][1], s.g.E[j][2]) } }
                    ELSE IF s.g.kind = "volume" THEN BorderEdgesT(s.T) ELSE {}
AdmGraph(s, e) ==
  LET ex == SeqToSet(e.excluded) IN
  CASE e.over = "vertices" ->
         LET bad == ex \cup (IF e.avoid_boundary = 1 THEN BorderEdgeIds(s) ELSE {})
         IN [n |-> s.g.n, A |-> SymClose({ <<s.g.E[k][1], s.g.E[k][2]>> : k \in { j \in 1..Len(s.g.E) : (j - 1) \notin bad } })]
    [] e.over = "faces" ->
         [n |-> Len(s.g.F), A |-> SymClose({ <<h.f, s.D.hm[<<h.nx, h.v>>].f>> :
                                    h \in { x \in s.D.H : HasHE(s.D, x.nx, x.v) /\ EdgeId(s.D, x.v, x.nx) \notin ex } })]
    [] e.over = "cells" ->
         [n |-> Len(s.g.C), A |-> UNION { { <<a, b>> \in s.T.f2c[f] \X s.T.f2c[f] : a # b } : f \in (0..(s.T.nf - 1)) \ ex }]
WeightOf(s, e, G) == [p \in G.A |-> IF e.mode = "one" THEN 1
                                    ELSE LET k == CHOOSE j \in 1..Len(s.g.E) : {s.g.E[j][1], s.g.E[j][2]} = {p[1], p[2]} IN
                                         IF e.mode = "length" THEN ISqrt(Len2(s.g.P, p[1], p[2])) ELSE e.W[k]]

RECURSIVE Depth(_, _, _, _)
Depth(par, root, v, fuel) == IF v = root \/ fuel = 0 \/ v = -1 THEN 0 ELSE 1 + Depth(par, root, par[v + 1], fuel - 1)
Idx(q, x) == CHOOSE i \in 1..Len(q) : q[i][1] = x
TraversalOk(tr, R, par, root) ==       \* every reached element exactly once, parents before children, pairs agree with the table
  /\ { tr[i][1] : i \in 1..Len(tr) } = R /\ Len(tr) = Cardinality(R)
  /\ Len(tr) > 0 => tr[1] = <<root, -1>>
  /\ \A i \in 1..Len(tr) : tr[i][2] = (IF tr[i][1] = root THEN -1 ELSE par[tr[i][1] + 1])
  /\ \A i \in 2..Len(tr) : Idx(tr, tr[i][2]) < i
TreeClauses(G, e, R, bfsDepth) ==
  LET par == e.parent
      got == { v \in GNodes(G) : par[v + 1] # -1 } \cup {e.root}
      tedges == { Key(par[v + 1], v) : v \in got \ {e.root} }
  IN << << got = R /\ par[e.root + 1] = -1,                                  "reaches_exactly_the_elements_connected_to_the_root" >>,
        << \A v \in got \ {e.root} : <<par[v + 1], v>> \in G.A,               "tree_edges_are_admissible_adjacencies" >>,
        << \A v \in GNodes(G) : SeqToSet(e.children[v + 1]) = { u \in GNodes(G) : par[u + 1] = v /\ u # e.root }
                                /\ Len(e.children[v + 1]) = Cardinality(SeqToSet(e.children[v + 1])), "parent_and_children_tables_consistent" >>,
        << TraversalOk(e.bfs, R, par, e.root) /\ TraversalOk(e.dfs, R, par, e.root), "traversal_visits_each_reached_element_once_parents_first" >>,
        << ~bfsDepth \/ \A v \in R : Depth(par, e.root, v, G.n) = HopDist(G, e.root)[v], "breadth_first_depth_is_hop_distance" >> >>

Judge(c, s, e) ==
  LET G == TLCEval(AdmGraph(s, e))
      cls == s.g.family \o "/" \o e.over \o (IF e.avoid_boundary = 1 THEN "/avoid_boundary" ELSE "") \o (IF Len(e.excluded) > 0 THEN "/exclusions" ELSE "")
  IN
  IF e.exc # "" THEN Bad("computation_succeeds", cls, e.exc, s)
  ELSE
  CASE e.op = "tree" ->
         LET R == Reach(G, e.root) IN
         Check(TreeClauses(G, e, R, TRUE) \o
               << << PairSet(e.edges) = { Key(e.parent[v + 1], v) : v \in R \ {e.root} } /\ Len(e.edges) = Cardinality(R) - 1,
                     "one_fewer_tree_edge_than_reached_elements" >> >>, cls, "", s)
    [] e.op = "mst" ->
         LET R == Reach(G, e.root)
             Wt == TLCEval(WeightOf(s, e, G))
             es == PairSet(e.edges)
             tot == LET RECURSIVE Sm(_) Sm(T) == IF T = {} THEN 0 ELSE LET x == CHOOSE y \in T : TRUE IN Wt[x] + Sm(T \ {x}) IN IF es \subseteq G.A THEN Sm(es) ELSE -1      \* clauses are evaluated eagerly: guard the lookups
         IN Check(<< << es \subseteq G.A /\ \A p \in es : p[1] < p[2], "tree_edges_are_admissible_adjacencies" >>,
                     << Len(e.edges) = Cardinality(es) /\ IsAcyclic(G.n, es) /\ GComps(GNodes(G), SymClose(es)) = Components(G),
                        "edge_list_is_a_spanning_forest" >>,
                     << tot = MinForestWeight(G, Wt), "edge_list_has_minimum_weight" >> >>
                  \o TreeClauses([n |-> G.n, A |-> SymClose(es)], e, R, FALSE), cls \o "/" \o e.mode, "", s)
    [] e.op = "forest" ->
         LET comps == Components(G)
             sets == [k \in 1..Len(e.trees) |-> SeqToSet(e.trees[k])]
         IN Check(<< << Len(e.roots) = Cardinality(comps) /\ \A cc \in comps : Cardinality(SeqToSet(e.roots) \cap cc) = 1, "one_tree_per_connected_component" >>,
                     << Len(e.trees) = Len(e.roots) /\ \A k \in 1..Len(e.trees) : e.roots[k] \in sets[k] /\ sets[k] \in comps
                        /\ Len(e.trees[k]) = Cardinality(sets[k]), "each_tree_spans_its_component_once" >>,
                     << PairSet(e.edges) \subseteq { Key(p[1], p[2]) : p \in G.A } /\ Len(e.edges) = G.n - Cardinality(comps)
                        /\ IsAcyclic(G.n, PairSet(e.edges)), "forest_edges_span_every_component" >>,
                     << e.edges2 = e.edges, "forest_edges_read_the_same_twice" >>,
                     << Len(e.tedges) = Len(e.trees) /\ \A k \in 1..Len(e.trees) : Len(e.tedges[k]) = Len(e.trees[k]) - 1
                        /\ \A p \in PairSet(e.tedges[k]) : p[1] \in sets[k] /\ p[2] \in sets[k], "each_tree_keeps_its_own_edges" >> >>, cls, "", s)
    [] OTHER -> Bad("unknown_operation", e.op, "", s)

W0 == INSTANCE Walker
Spec == W0!Spec
=============================================================================
