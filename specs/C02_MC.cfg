CONSTANTS
  EmitOn = TRUE
  Big = FALSE
SPECIFICATION Spec
INVARIANT BuildIsWellFormed
INVARIANT BuildAgainChangesNothing
INVARIANT CornersMatch
INVARIANT Emit
CHECK_DEADLOCK FALSE
