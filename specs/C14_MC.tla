------------------------------- MODULE C14_MC -------------------------------
(* The table is consistent: for every resolution pair the reference construction of the grid-like  *)
(* shapes is a valid oriented manifold with exactly the tabulated counts and topology, also when the  *)
(* two resolutions differ.                                                                             *)
EXTENDS C14_Procedural
CONSTANTS Lo, Hi
VARIABLES gen, a, b, sw
Init == gen \in {"unit_grid", "torus", "cylinder"} /\ a \in Lo..Hi /\ b \in Lo..Hi /\ sw \in {0, 1}
Next == UNCHANGED <<gen, a, b, sw>>
Spec == Init /\ [][Next]_<<gen, a, b, sw>>
P == [nu |-> a, nv |-> b, M |-> a, m |-> b, N |-> a, caps |-> sw, triangulate |-> sw, volume |-> 0]
Ref == CASE gen = "unit_grid" -> GridFaces(a, b, sw = 1) [] gen = "torus" -> TorusFaces(a, b, sw = 1) [] OTHER -> CylinderFaces(a, sw = 1)
TableHolds == LET w == Want(gen, P)
                  D == Derive(Ref, w.nv, SidesOf(Ref))
              IN \A i \in 1..Len(Topology(D, w)) : Topology(D, w)[i][1]
=============================================================================
