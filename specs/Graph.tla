------------------------------- MODULE Graph -------------------------------
(* Undirected graphs on nodes 0..n-1 with non-negative integer weights.                     *)
(*   G = [n, A]  A: symmetric set of pairs <<u, v>>;   W: function on A (W[<<u,v>>] = W[<<v,u>>]) *)
EXTENDS Naturals, Integers, Sequences, FiniteSets, TLC

INF == 1000000
GNodes(G) == 0..(G.n - 1)
SymClose(R) == R \cup { <<p[2], p[1]>> : p \in R }
RECURSIVE GGrow(_, _)
GGrow(S, A) == LET T == S \cup { p[2] : p \in { q \in A : q[1] \in S } } IN IF T = S THEN S ELSE GGrow(T, A)
Reach(G, r) == GGrow({r}, G.A)
RECURSIVE GComps(_, _)
GComps(nodes, A) == IF nodes = {} THEN {}
                    ELSE LET c == GGrow({CHOOSE x \in nodes : TRUE}, A) IN {c} \cup GComps(nodes \ c, A)
Components(G) == GComps(GNodes(G), G.A)

(* hop distance from r: breadth-first layers *)
RECURSIVE Layers(_, _, _, _)
Layers(G, seen, frontier, d) ==        \* function node -> depth on the nodes reached so far
  IF frontier = {} THEN [v \in {} |-> 0]
  ELSE LET nxt == { p[2] : p \in { q \in G.A : q[1] \in frontier } } \ seen
       IN [v \in frontier |-> d] @@ Layers(G, seen \cup nxt, nxt, d + 1)
HopDist(G, r) == Layers(G, {r}, {r}, 0)

(* shortest-path distances (Bellman-Ford rounds) *)
RECURSIVE BF(_, _, _, _)
BF(G, W, d, k) == IF k = 0 THEN d
                  ELSE BF(G, W, TLCEval([v \in GNodes(G) |->       \* TLCEval: force the table, lazy functions would recompute exponentially
                        LET cands == { d[p[1]] + W[p] : p \in { q \in G.A : q[2] = v /\ d[q[1]] < INF } } \cup {d[v]}
                        IN CHOOSE m \in cands : \A x \in cands : m <= x]), k - 1)
Dist(G, W, s) == BF(G, W, [v \in GNodes(G) |-> IF v = s THEN 0 ELSE INF], G.n)
IsWalk(G, p) == Len(p) >= 1 /\ \A i \in 1..(Len(p) - 1) : <<p[i], p[i + 1]>> \in G.A
RECURSIVE WalkWeight(_, _)
WalkWeight(W, p) == IF Len(p) <= 1 THEN 0 ELSE W[<<p[1], p[2]>>] + WalkWeight(W, Tail(p))

(* minimum weight of a spanning forest (Kruskal on the specification side) *)
RECURSIVE Kruskal(_, _, _, _)
Kruskal(edges, W, comp, acc) ==      \* edges: set of <<u,v>> with u<v still to consider; comp: node -> component id
  IF edges = {} THEN acc
  ELSE LET e == CHOOSE x \in edges : \A y \in edges : W[x] <= W[y]
       IN IF comp[e[1]] = comp[e[2]] THEN Kruskal(edges \ {e}, W, comp, acc)
          ELSE Kruskal(edges \ {e}, W, TLCEval([v \in DOMAIN comp |-> IF comp[v] = comp[e[2]] THEN comp[e[1]] ELSE comp[v]]), acc + W[e])
MinForestWeight(G, W) == Kruskal({ p \in G.A : p[1] < p[2] }, W, [v \in GNodes(G) |-> v], 0)
IsAcyclic(n, es) ==      \* es: set of <<u,v>>: a forest iff #edges = #nodes - #components
  LET A == SymClose(es) IN Cardinality({ <<IF p[1] < p[2] THEN p[1] ELSE p[2], IF p[1] < p[2] THEN p[2] ELSE p[1]>> : p \in A })
                           = n - Cardinality(GComps(0..(n - 1), A))
=============================================================================
