------------------------------ MODULE C12_Trace ------------------------------
(* Two kinds of cases.                                                                      *)
(* kind = "effects": every event is one API call on named caller-owned objects (arrays,      *)
(*   boxes, meshes).  The harness records content digests of ALL tracked objects and          *)
(*   numpy.geterr() before and after the call (whether it returned or raised).  The write set  *)
(*   of each call is defined HERE (WriteSet), from the documentation.                          *)
(* kind = "prim": every event is one primitive evaluated on lattice inputs; the result is       *)
(*   judged against the exact algebra of C12_Primitives.                                       *)
EXTENDS TraceKit, C12_Primitives
VARIABLES ci, ei, st, nj, ns, ne

InitState(c) == [kind |-> c.given.kind]

(* ------------------------------- effects ------------------------------- *)
InPlaceOps == {"AABB.pad", "Vec.normalize", "transform.translate", "transform.rotate", "transform.scale",
               "transform.normalize", "transform.flatten", "transform.translate_to_origin", "transform.scale_xyz"}
WriteSet(op, args) == IF op \in InPlaceOps THEN {args[1]} ELSE {}
Changed(e) == { n \in DOMAIN e.before : e.after[n] # e.before[n] } \ WriteSet(e.op, e.args)
JudgeEffects(s, e) ==
  LET ch == Changed(e)
      outcome == IF e.exc = "" THEN "returns" ELSE "raises"
      victim == IF ch = {} THEN "" ELSE LET n == CHOOSE x \in ch : TRUE IN
                   e.kinds[n] \o (IF n \in SeqToSet(e.args) THEN ":argument" ELSE ":bystander")
  IN IF e.op = "user_seterr" THEN Ok(s)
     ELSE Check(<< << ch = {}, "objects_outside_the_write_set_unchanged" >>,
                   << e.ea = e.eb, "numpy_error_state_unchanged" >> >>,
                e.op \o "/" \o outcome \o (IF victim = "" THEN "" ELSE "/" \o victim), "", s)

(* ------------------------------- primitives ------------------------------- *)
Bx(x) == [lo |-> x[1], hi |-> x[2]]
RSeq(q) == [i \in 1..Len(q) |-> R(q[i])]
B(x) == IF x THEN 1 ELSE 0
AngleOk(r, u, v) == r.in01 = 1 /\ r.c2 = Cos2(u, v) /\ r.sc = CosSign(u, v)     \* [0, pi], exact cosine
JudgePrim(s, e) ==
  LET op == e.op
      a == e.a
      r == e.ret
      one(cond, clause) == Check(<< << e.exc = "", "call_succeeds" >>, << cond, clause >> >>, e.cls, "", s)
  IN
  CASE op = "box.contains"   -> one(r = B(Contains(Bx(a), a[3])), "contained_iff_inside_half_open_box")
    [] op = "box.project"    -> one(r = RSeq(Project(Bx(a), a[3])), "projection_is_nearest_point_of_closed_box")
    [] op = "box.distance_l1"   -> one(r = R(DistL1(Bx(a), a[3])), "distance_realised_by_projection_l1")
    [] op = "box.distance_linf" -> one(r = R(DistLinf(Bx(a), a[3])), "distance_realised_by_projection_linf")
    [] op = "box.distance_l2"   -> one(r = R(DistL2sq(Bx(a), a[3])), "distance_realised_by_projection_l2")
    [] op = "box.union"      -> one(r = <<RSeq(Union(Bx(a[1]), Bx(a[2])).lo), RSeq(Union(Bx(a[1]), Bx(a[2])).hi)>>, "union_is_componentwise_hull")
    [] op = "box.intersection" -> one(r = <<RSeq(Inter(Bx(a[1]), Bx(a[2])).lo), RSeq(Inter(Bx(a[1]), Bx(a[2])).hi)>>, "intersection_is_componentwise_overlap")
    [] op = "box.do_intersect" -> one(r = B(DoIntersect(Bx(a[1]), Bx(a[2]))), "intersect_iff_overlap_nonnegative")
    [] op = "box.of_points"  -> one(r = <<RSeq(BoxOf(a).lo), RSeq(BoxOf(a).hi)>>, "box_of_points_is_tight")
    [] op = "box.is_empty"   -> one(r = B(IsEmptyBox(Bx(a))), "empty_iff_some_extent_not_positive")
    [] op = "box.span"       -> one(r = RSeq([i \in 1..Len(a[1]) |-> a[2][i] - a[1][i]]), "span_is_hi_minus_lo")
    [] op = "box.center"     -> one(r = [i \in 1..Len(a[1]) |-> Norm(<<a[1][i] + a[2][i], 2>>)], "center_is_midpoint")
    [] op = "cross"          -> one(r = RSeq(ICross(a[1], a[2])), "cross_product_exact")
    [] op = "dot"            -> one(r = R(IDot(a[1], a[2])), "dot_product_exact")
    [] op = "det_2x2"        -> one(r = R(Det2(a[1], a[2])), "determinant_exact")
    [] op = "det_3x3"        -> one(r = R(Det3(a[1], a[2], a[3])), "determinant_exact")
    [] op = "norm_l2"        -> one(r = R(IDot(a, a)), "norm_exact")
    [] op = "norm_l1"        -> one(r = R(ISum([i \in 1..Len(a) |-> IF a[i] < 0 THEN -a[i] ELSE a[i]])), "norm_exact")
    [] op = "norm_linf"      -> one(r = R(IMax([i \in 1..Len(a) |-> IF a[i] < 0 THEN -a[i] ELSE a[i]])), "norm_exact")
    [] op = "distance_l2"    -> one(r = R(IDot(ISub(a[1], a[2]), ISub(a[1], a[2]))), "distance_exact")
    [] op = "triangle_area"  -> LET c == ICross(ISub(a[2], a[1]), ISub(a[3], a[1])) IN one(r = Norm(<<IDot(c, c), 4>>), "triangle_area_exact")
    [] op = "angle_3pts"     ->      \* both argument orders recorded: symmetric, in [0, pi], exact cosine
         one(AngleOk(r[1], ISub(a[1], a[2]), ISub(a[3], a[2])) /\ AngleOk(r[2], ISub(a[3], a[2]), ISub(a[1], a[2])),
             "angle_in_0_pi_symmetric_exact")
    [] op = "angle_2vec3D"   -> one(AngleOk(r, a[1], a[2]), "angle_in_0_pi_exact")
    [] op = "cotan"          ->      \* reciprocal tangent of the angle at B
         LET u == ISub(a[1], a[2])
             v == ISub(a[3], a[2])
         IN one(r.c2 = Cot2(u, v) /\ r.sg = Sgn(IDot(u, v)), "cotangent_is_cos_over_sin")
    [] op = "signed_angle"   ->      \* (V1, V2, N) and (V2, V1, N): antisymmetric, magnitude exact
         LET sg == Sgn(IDot(ICross(a[1], a[2]), a[3]))
         IN IF sg = 0 THEN Skip(s)
            ELSE one(/\ r[1].c2 = Cos2(a[1], a[2]) /\ r[1].sc = CosSign(a[1], a[2]) /\ r[1].sg = sg
                     /\ r[2].c2 = Cos2(a[1], a[2]) /\ r[2].sc = CosSign(a[1], a[2]) /\ r[2].sg = -sg, "signed_angle_antisymmetric_exact")
    [] op = "circumcenter"   ->
         IF ICross(ISub(a[2], a[1]), ISub(a[3], a[1])) = <<0, 0, 0>> THEN Skip(s)     \* degenerate triangle
         ELSE one(\A i \in 1..3 : IsRat(r[i]) /\ Equidistant(r, a[1], a[2], a[3]), "circumcentre_equidistant")   \* C12 states equidistance; the full definition is C07's
    [] op \in {"principal_angle", "angle_diff"} ->      \* a = <<k, q>>: the angle k*pi/q (angle_diff: minus 0); r = result / pi
         LET want == Norm(<<a[1], a[2]>>)
         IN one(IsRat(r) /\ Congruent2(r, want) /\ InMinus1To1(r), "reduced_angle_congruent_and_in_range")
    [] op = "roots"          ->      \* a = <<k, q, n>>: c has argument k*pi/q; r = sequence of [arg/pi, |root|^2]
         LET n == a[3]
             want == Norm(<<a[1], a[2]>>)
         IN one(/\ Len(r) = n
                /\ \A i \in 1..n : IsRat(r[i][1]) /\ r[i][2] = R(1) /\ Congruent2(RMul(R(n), r[i][1]), want)
                /\ \A i, j \in 1..n : i # j => ~Congruent2(r[i][1], r[j][1]), "nth_roots_of_the_unit_input")
    [] op = "rotate_around_axis" ->     \* a = <<v, table index>>; exact image under the rotation matrix
         one(r = MatVec(RotTable[a[2]], RSeq(a[1])), "rotation_about_axis_exact")
    [] op = "rotate_2d"      ->
         LET M == RotTable[a[2]] IN
         one(r = << VDot(<<M[1][1], M[1][2]>>, RSeq(a[1])), VDot(<<M[2][1], M[2][2]>>, RSeq(a[1])) >>, "rotation_in_plane_exact")
    [] OTHER -> Bad("unknown_operation", op, "", s)

Judge(c, s, e) == IF s.kind = "effects" THEN JudgeEffects(s, e) ELSE JudgePrim(s, e)

W == INSTANCE Walker
Spec == W!Spec
=============================================================================
