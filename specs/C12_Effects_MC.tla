--------------------------- MODULE C12_Effects_MC ---------------------------
(* Effect system of the geometry layer, at the grain of the implementation.                *)
(* Caller-owned arrays and boxes are REFERENCES to buffers; numpy's floating-point error    *)
(* configuration is a global.  One action per kind of API call; every call has a documented  *)
(* WRITE SET (pad: the box itself; nothing else writes anything).  NoSideEffects: after every *)
(* call - returned or raised - every array and every box outside the write set reads what it *)
(* read before, and the error configuration is what it was.                                   *)
(* AsBuilt: "seterr_not_restored" (Vec.normalized does seterr(all='raise') ... seterr(all=    *)
(* 'warn') instead of restoring), "aabb_wraps_args" (AABB(a, b) keeps views of a and b).       *)
EXTENDS Naturals, Integers, Sequences, FiniteSets, TLC, Json
CONSTANTS AsBuilt, D, EmitOn
VARIABLES buf, arr, boxes, err, act, hist
vars == <<buf, arr, boxes, err, act, hist>>

Arrays == {"a", "b"}
A(op, f) == [op |-> op] @@ f
Log(a) == act' = a /\ hist' = Append(hist, a)
ReadArr(x) == buf[arr[x]]
ReadBox(k) == <<buf[boxes[k][1]], buf[boxes[k][2]]>>

Init == /\ buf = <<0, 3>> /\ arr = [x \in Arrays |-> IF x = "a" THEN 1 ELSE 2]
        /\ boxes = <<>> /\ err = "default" /\ act = [op |-> "init"] /\ hist = <<>>

MkBox(x, y) ==      \* AABB(x, y)
  /\ Len(boxes) < 2
  /\ IF "aabb_wraps_args" \in AsBuilt
     THEN boxes' = Append(boxes, <<arr[x], arr[y]>>) /\ buf' = buf
     ELSE boxes' = Append(boxes, <<Len(buf) + 1, Len(buf) + 2>>) /\ buf' = buf \o <<ReadArr(x), ReadArr(y)>>
  /\ UNCHANGED <<arr, err>> /\ Log(A("AABB", [x |-> x, y |-> y]))
MkBoxFromBox(k) ==  \* AABB(box.mini, box.maxi)
  /\ Len(boxes) < 2
  /\ IF "aabb_wraps_args" \in AsBuilt
     THEN boxes' = Append(boxes, boxes[k]) /\ buf' = buf
     ELSE boxes' = Append(boxes, <<Len(buf) + 1, Len(buf) + 2>>) /\ buf' = buf \o <<buf[boxes[k][1]], buf[boxes[k][2]]>>
  /\ UNCHANGED <<arr, err>> /\ Log(A("AABB_from_box", [k |-> k]))
Pad(k) ==           \* box.pad(1.): the only call with a non-empty write set
  /\ buf' = [buf EXCEPT ![boxes[k][1]] = @ - 1, ![boxes[k][2]] = buf[boxes[k][2]] + 1]
  /\ UNCHANGED <<arr, boxes, err>> /\ Log(A("pad", [k |-> k]))
Normalized(raises) ==   \* Vec.normalized(v) and everything built on it (cotan, face_basis, circumcenter ...)
  /\ err' = IF "seterr_not_restored" \in AsBuilt THEN (IF raises THEN "raise" ELSE "warn") ELSE err
  /\ UNCHANGED <<buf, arr, boxes>> /\ Log(A("normalized", [raises |-> raises]))
UserSetErr(m) == /\ err' = m /\ UNCHANGED <<buf, arr, boxes>> /\ Log(A("user_seterr", [mode |-> m]))
Pure == UNCHANGED <<buf, arr, boxes, err>> /\ Log(A("pure", <<>>))

Next == /\ Len(hist) < D
        /\ \/ \E x, y \in Arrays : MkBox(x, y)
           \/ \E k \in 1..Len(boxes) : MkBoxFromBox(k) \/ Pad(k)
           \/ \E r \in BOOLEAN : Normalized(r)
           \/ \E m \in {"default", "ignore"} : UserSetErr(m)
           \/ Pure
Spec == Init /\ [][Next]_vars

NoSideEffects ==
  [][ LET a == act' IN
      /\ a.op # "user_seterr" => err' = err
      /\ \A x \in Arrays : buf'[arr'[x]] = ReadArr(x)                                   \* caller arrays
      /\ \A k \in 1..Len(boxes) : (a.op = "pad" /\ a.k = k) \/ <<buf'[boxes'[k][1]], buf'[boxes'[k][2]]>> = ReadBox(k) ]_vars
View == <<[x \in Arrays |-> ReadArr(x)], [k \in 1..Len(boxes) |-> ReadBox(k)],
          [k \in 1..Len(boxes) |-> {x \in Arrays : arr[x] \in {boxes[k][1], boxes[k][2]}}],
          [k \in 1..Len(boxes) |-> {j \in 1..Len(boxes) : boxes[j] = boxes[k]}], err, act.op>>
Emit == EmitOn => PrintT(ToJson([k |-> "H", h |-> hist]))
=============================================================================
