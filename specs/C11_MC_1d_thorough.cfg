CONSTANTS
  NP = 5
  Dim = 1
  Leaf = 1
  Strategy = "random"
  AsBuilt = FALSE
  EmitOn = TRUE
SPECIFICATION Spec
INVARIANT Partition
INVARIANT BoundedSplits
INVARIANT Emit
PROPERTY Terminates
CHECK_DEADLOCK FALSE
