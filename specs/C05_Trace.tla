------------------------------ MODULE C05_Trace ------------------------------
(* Validates executions of a real DataContainer carrying one sparse attribute "s" and one  *)
(* dense attribute "d" of the same type/arity/default, driven in lock-step.                *)
(* After every event the harness records  proj = [size, nelem, rs, rd]  (reads of every     *)
(* in-range index of both attributes; a failing read is recorded as <<"!ExcName">>).        *)
EXTENDS TraceKit, C05_Attributes
VARIABLES ci, ei, st, nj, ns, ne

Cls(a)  == a.at \o "/" \o ToString(a.k)
InitState(c) == New(0, c.given.at, c.given.k, c.given.dflt)

ProjClauses(a, p) ==
  << << p.size = a.size,                         "container_size" >>,
     << p.nelem = a.size,                        "dense_attribute_aligned_with_container" >>,
     << Len(p.rs) = a.size /\ \A i \in 1..a.size : p.rs[i] = a.vs[i], "sparse_reads_last_write_or_default" >>,
     << Len(p.rd) = a.size /\ \A i \in 1..a.size : p.rd[i] = a.vd[i], "dense_reads_last_write_or_default" >> >>

(* continue from what was observed when the spec's own next state was contradicted *)
Adopt(obs, exp, k) == [i \in 1..Len(exp) |-> IF Len(obs[i]) = k /\ \A j \in 1..k : obs[i][j] # "!" THEN obs[i] ELSE exp[i]]
Resync(a, p) == IF Len(p.rs) = a.size /\ Len(p.rd) = a.size
                THEN [a EXCEPT !.vs = Adopt(p.rs, a.vs, a.k), !.vd = Adopt(p.rd, a.vd, a.k)] ELSE a

Judge(c, a, e) ==
  LET op == e.op
      p  == e.proj
  IN
  CASE op = "init" ->
         LET nxt == New(e.n, a.at, a.k, a.dflt)
         IN Check(<< <<e.exc = "", "attribute_created">> >> \o ProjClauses(nxt, p), Cls(a), "", Resync(nxt, p))
    [] op = "set" ->
         LET verdict == SetVerdict(a.at, a.k, e.vt, e.va)
             nxt == IF verdict = "ok" /\ InRange(a, e.i) THEN DoSet(a, e.i, e.v) ELSE a
             cls == Cls(a) \o "<-" \o e.vt \o "/" \o ToString(e.va)
         IN Check(<< << (e.es = "") = (verdict = "ok"), "sparse_accepts_iff_castable_and_exact_arity" >>,
                     << (e.ed = "") = (verdict = "ok"), "dense_accepts_iff_castable_and_exact_arity" >>,
                     << e.es = e.ed,                    "sparse_and_dense_reject_alike" >> >>
                  \o ProjClauses(nxt, p), cls, verdict, Resync(nxt, p))
    [] op = "probe" ->
         LET cls == IF e.i = a.size THEN "index=size" ELSE IF e.i < 0 THEN "index<0"
                    ELSE IF e.i > a.size THEN "index>size" ELSE "in_range"
         IN Check(<< << IF InRange(a, e.i) THEN e.eg = "" ELSE e.eg = "OutOfBoundsError" /\ e.est = "OutOfBoundsError",
                        "dense_reports_out_of_bounds" >> >> \o ProjClauses(a, p), cls, "", Resync(a, p))
    [] op = "copy_entry" ->        \* a[j] = a[i] : the value READ from entry i (a vector object) is written to entry j - entry j then holds that value, by copy
         IF ~InRange(a, e.i) \/ ~InRange(a, e.j) \/ a.k < 2 \/ e.i = e.j THEN Skip(a) ELSE
         LET nxt == [a EXCEPT !.vs[e.j + 1] = a.vs[e.i + 1], !.vd[e.j + 1] = a.vd[e.i + 1],
                              !.taint = (a.taint \ {e.j}) \cup (IF e.i \in a.taint THEN {e.j} ELSE {}), !.wr = a.wr \cup {e.j}]
         IN Check(<< << e.exc = "", "entry_value_can_be_written_to_another_entry" >> >> \o ProjClauses(nxt, p), Cls(a), "", Resync(nxt, p))
    [] op = "inplace" ->
         IF ~InRange(a, e.i) \/ a.k < 2 THEN Skip(a) ELSE
         LET i == e.i
             oldS == a.vs[i + 1]
             oldD == a.vd[i + 1]
             cs == Len(p.rs) = a.size /\ p.rs[i + 1] = Poke(oldS, e.x)
             cd == Len(p.rd) = a.size /\ p.rd[i + 1] = Poke(oldD, e.x)
             wf(obs) == Len(obs) = a.size /\ Len(obs[i + 1]) = a.k /\ \A j \in 1..a.k : obs[i + 1][j] # "!"
             \* the entry itself is not constrained by the statement (view or copy, numpy casting of the
             \* poked component): continue from what it reads now; only the OTHER entries are judged
             nxt == [a EXCEPT !.vs[i + 1] = IF wf(p.rs) THEN p.rs[i + 1] ELSE oldS,
                              !.vd[i + 1] = IF wf(p.rd) THEN p.rd[i + 1] ELSE oldD,
                              !.taint = a.taint \cup {i}]
             cls == IF i \in a.wr THEN "written_entry" ELSE "unset_entry"
             others(obs, old) == Len(obs) = a.size /\ \A j \in 1..a.size : j # i + 1 => obs[j] = old[j]
         IN Check(<< << e.exc = "", "read_value_is_mutable_vector" >>,
                     << others(p.rs, a.vs), "sparse_inplace_update_changes_only_that_entry" >>,
                     << others(p.rd, a.vd), "dense_inplace_update_changes_only_that_entry" >> >>
                  \o ProjClauses(nxt, p), cls, "", Resync(nxt, p))
    [] op \in {"append", "extend_list", "extend_container"} ->
         LET nxt == DoGrow(a, e.n)
         IN Check(<< << e.exc = "", "growth_accepted" >> >> \o ProjClauses(nxt, p), Cls(a), "", Resync(nxt, p))
    [] op = "clear" ->
         LET nxt == DoClear(a) IN Check(<< <<e.exc = "", "accepted">> >> \o ProjClauses(nxt, p), Cls(a), "", Resync(nxt, p))
    [] op = "recreate" ->
         LET nxt == New(a.size, a.at, a.k, a.dflt)
         IN Check(<< <<e.exc = "", "accepted">> >> \o ProjClauses(nxt, p), Cls(a), "", Resync(nxt, p))
    [] op = "as_array" ->
         Check(<< << e.exc = "", "accepted" >>,
                  << e.fs = Flat(a.vs), "sparse_array_export_is_the_map" >>,
                  << e.fd = Flat(a.vd), "dense_array_export_is_the_map" >> >> \o ProjClauses(a, p),
               Cls(a), "", Resync(a, p))
    [] OTHER -> Bad("unknown_operation", op, "", a)

W == INSTANCE Walker
Spec == W!Spec
=============================================================================
