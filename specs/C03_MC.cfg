CONSTANTS
  AsBuilt = {}
  D = 7
  EmitOn = TRUE
SPECIFICATION Spec
INVARIANT NoSpuriousFailure
CONSTRAINT Emit
VIEW View
CHECK_DEADLOCK FALSE
