------------------------------ MODULE C03_Trace ------------------------------
(* Judges recorded answers of a real VolumeMesh against TetCore.                              *)
(* given = [nv, C (cells), F (mesh.faces as built), E (mesh.edges as built), P (integer coordinates),  *)
(*          sorted, family].  Events as in C01_Trace: op, args, ret, exc.                               *)
EXTENDS TraceKit, TetCore
VARIABLES ci, ei, st, nj, ns, ne

InitState(c) == LET D == DeriveT(c.given.C, c.given.F, c.given.E, c.given.nv)
                IN [D |-> D, ok |-> IsTetComplex(D) /\ EdgeFansConnected(D), P |-> c.given.P, sorted |-> c.given.sorted = 1, fam |-> c.given.family,
                    pos |-> \A k \in 1..Len(c.given.C) : CellPositive(c.given.P, c.given.C[k])]
Bo(x) == IF x THEN 1 ELSE 0
All(args, ret, Pr(_, _)) == Len(ret) = Len(args) /\ \A k \in 1..Len(args) : Pr(args[k], ret[k])
SetIs(r, S) == TSet(r) = S /\ Len(r) = Cardinality(S)

Judge(c, s, e) ==
  LET D == s.D
      op == e.op
      fam == s.fam
      simple(Pr(_, _), clause) == Check(<< << All(e.args, e.ret, Pr), clause >> >>, fam, "", s)
      listIs(S, clause) == Check(<< << SetIs(e.ret, S), clause >> >>, fam, "", s)
  IN
  IF ~s.ok THEN Skip(s)
  ELSE IF e.exc # "" THEN Bad("query_succeeds", fam, e.exc, s)
  ELSE
  CASE op = "clear" -> Ok(s)
    [] op = "face_to_cells"  -> simple(LAMBDA a, r : SetIs(r, D.f2c[a]), "cells_on_both_sides_of_face")
    [] op = "cell_to_face"   -> simple(LAMBDA a, r : r = [i \in 1..4 |-> CellFace(D, a, i - 1)], "ith_face_opposite_ith_vertex")
    [] op = "cell_to_cell"   -> simple(LAMBDA a, r : SetIs(r, CellNeighbours(D, a)), "cells_sharing_a_face")
    [] op = "other_face_side" -> simple(LAMBDA a, r : r = OtherSide(D, a[1], a[2]), "cell_across_face")
    [] op = "common_face"    -> simple(LAMBDA a, r : r = CommonFace(D, a[1], a[2]), "face_between_two_cells")
    [] op = "vertex_to_cell" -> simple(LAMBDA a, r : SetIs(r, VertexCells(D, a)), "cells_around_vertex")
    [] op = "in_cell_index"  -> simple(LAMBDA a, r : r = InCellIndex(D, a[1], a[2]), "index_of_vertex_in_cell")
    [] op = "in_cell_face_index" -> simple(LAMBDA a, r : r = InCellFaceIndex(D, a[1], a[2]), "index_of_face_in_cell")
    [] op = "cell_to_edge"   -> simple(LAMBDA a, r : SetIs(r, CellEdges(D, a)), "edges_of_cell")
    [] op = "edge_to_cell"   ->
         IF s.sorted THEN simple(LAMBDA a, r : IsRotational(r, D.e2c[a], LAMBDA x, y : CellsShareFaceAt(D, a, x, y)), "cells_around_edge_in_rotational_order")
         ELSE simple(LAMBDA a, r : SetIs(r, D.e2c[a]), "cells_around_edge")
    [] op = "edge_to_face"   ->
         IF s.sorted THEN simple(LAMBDA a, r : IsRotational(r, D.e2f[a], LAMBDA x, y : FacesShareCell(D, x, y)), "faces_around_edge_in_rotational_order")
         ELSE simple(LAMBDA a, r : SetIs(r, D.e2f[a]), "faces_around_edge")
    [] op = "is_face_on_border"   -> simple(LAMBDA a, r : r = Bo(a \in BorderFaces(D)), "face_border_classification")
    [] op = "is_edge_on_border"   -> simple(LAMBDA a, r : r = Bo(a \in BorderEdgesT(D)), "edge_border_classification")
    [] op = "is_vertex_on_border" -> simple(LAMBDA a, r : r = Bo(a \in BorderVertsT(D)), "vertex_border_classification")
    [] op = "boundary_faces"    -> listIs(BorderFaces(D), "boundary_faces_are_exactly_those")
    [] op = "interior_faces"    -> listIs((0..(D.nf - 1)) \ BorderFaces(D), "interior_faces_are_exactly_those")
    [] op = "boundary_edges"    -> listIs(BorderEdgesT(D), "boundary_edges_are_exactly_those")
    [] op = "interior_edges"    -> listIs((0..(Len(D.E) - 1)) \ BorderEdgesT(D), "interior_edges_are_exactly_those")
    [] op = "boundary_vertices" -> listIs(BorderVertsT(D), "boundary_vertices_are_exactly_those")
    [] op = "interior_vertices" -> listIs((0..(D.nv - 1)) \ BorderVertsT(D), "interior_vertices_are_exactly_those")
    [] op \in {"boundary_connectivity", "extract_boundary"} ->
         (* e.b = [F (boundary faces, boundary numbering), nv, b2mv, m2bv (pairs), b2mf, m2bf, b2me, m2be, E (boundary edges)] *)
         LET b == e.b
             inv(ab, ba) == { <<p[1], p[2]>> : p \in TSet(ab) } = { <<p[2], p[1]>> : p \in TSet(ba) }
                            /\ Cardinality({ p[1] : p \in TSet(ab) }) = Len(ab) /\ Cardinality({ p[2] : p \in TSet(ab) }) = Len(ab)
             b2m == [p \in { q[1] : q \in TSet(b.b2mv) } |-> (CHOOSE q \in TSet(b.b2mv) : q[1] = p)[2]]
             img(f) == [i \in 1..3 |-> b2m[f[i]]]
             asMesh == { TSet(img(b.F[k])) : k \in 1..Len(b.F) }
             want == { TSet(D.F[f + 1]) : f \in BorderFaces(D) }
             cellOf(vs) == CHOOSE cc \in 1..D.nc : vs \subseteq TSet(D.C[cc])
             fourth(vs) == CHOOSE v \in TSet(D.C[cellOf(vs)]) : v \notin vs
             outward == \A k \in 1..Len(b.F) : LET f == img(b.F[k]) IN OutwardDet(s.P, f[1], f[2], f[3], fourth(TSet(f))) > 0
             wellformed == \A k \in 1..Len(b.F) : Len(b.F[k]) = 3 /\ \A i \in 1..3 : b.F[k][i] \in DOMAIN b2m
         IN IF ~wellformed \/ ~inv(b.b2mv, b.m2bv) THEN Bad("vertex_maps_mutually_inverse", fam, "", s)
            ELSE Check(<< << asMesh = want /\ Len(b.F) = Cardinality(want), "boundary_consists_of_exactly_the_border_faces" >>,
                          << ClosedSurface(b.F, b.nv), "boundary_surface_is_closed" >>,
                          << (op = "extract_boundary" /\ ~s.pos) \/ outward, "boundary_oriented_outwards" >>,
                          << b.posok = 1, "boundary_vertices_keep_the_positions_of_their_volume_vertices" >>,
                          << op = "extract_boundary" \/
                             ( /\ inv(b.b2mf, b.m2bf) /\ inv(b.b2me, b.m2be)
                               /\ \A p \in TSet(b.b2mf) : TSet(img(b.F[p[1] + 1])) = TSet(D.F[p[2] + 1])
                               /\ { p[2] : p \in TSet(b.b2mf) } = BorderFaces(D)
                               /\ \A p \in TSet(b.b2me) : {b2m[b.E[p[1] + 1][1]], b2m[b.E[p[1] + 1][2]]} = {D.E[p[2] + 1][1], D.E[p[2] + 1][2]}
                               /\ { p[2] : p \in TSet(b.b2me) } = BorderEdgesT(D) ),
                             "edge_and_face_maps_mutually_inverse_and_consistent" >> >>,
                       fam \o (IF s.pos THEN "" ELSE "/mixed_orientation"), "", s)
    [] OTHER -> Bad("unknown_operation", op, "", s)

W == INSTANCE Walker
Spec == W!Spec
=============================================================================
