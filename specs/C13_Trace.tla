------------------------------ MODULE C13_Trace ------------------------------
(* Validates editing blocks executed on real meshes.  Events of one case:                    *)
(*   "enter"  (state of the editor's raw mesh right after __enter__)                          *)
(*   one event per operation inside the block, each with the editor's (V, F) after it         *)
(*   "exit"   result mesh (V, F, E) and the projection of the INPUT object before / after     *)
(* Polyline cases have the single event "split_edge".                                         *)
(* The connectivity answers of the result (and of the input object afterwards) are judged by  *)
(* C01_Trace on cases the driver derives from the same execution.                             *)
EXTENDS TraceKit, C13_Subdivision
VARIABLES ci, ei, st, nj, ns, ne

InitState(c) == [V |-> c.given.V, F |-> c.given.F, D |-> Derive(c.given.F, Len(c.given.V), <<>>),
                 ok |-> LET D0 == Derive(c.given.F, Len(c.given.V), <<>>) IN IsManifold(D0) /\ Subdividable(D0), fam |-> c.given.family,
                 E |-> IF "E" \in DOMAIN c.given THEN c.given.E ELSE <<>>]

Adv(s, e) == [s EXCEPT !.V = e.V, !.F = e.F, !.D = Derive(e.F, Len(e.V), <<>>)]
ArClass(F) == IF AllTri(F) THEN "triangles" ELSE IF AllQuad(F) THEN "quads"
              ELSE IF NBig(F) = 0 THEN "tri+quad" ELSE "polygons"

Judge(c, s, e) ==
  LET op == e.op
      cls == ArClass(s.F)
  IN
  IF op = "split_edge" /\ ~(\A k \in 1..Len(s.E) : Len(s.E[k]) = 2 /\ s.E[k][1] < Len(s.V) /\ s.E[k][2] < Len(s.V))
  THEN Skip([s EXCEPT !.V = e.V, !.E = e.E])       \* state already corrupted by an earlier rejected call
  ELSE IF op = "split_edge" THEN      \* polyline: given V, E; e.i = edge index; e.V, e.E after
       LET A == s.E[e.i + 1][1]
           Bv == s.E[e.i + 1][2]
           nC == Len(s.V)
       IN Check(<< << e.exc = "", "operation_accepts_admissible_mesh" >>,
                   << Len(e.V) = nC + 1 /\ OldInPlace(s.V, e.V), "original_vertices_in_place_one_added" >>,
                   << e.V[nC + 1] = VMulS(<<1, 2>>, VAdd(s.V[A + 1], s.V[Bv + 1])), "new_vertex_at_edge_midpoint" >>,
                   << Len(e.E) = Len(s.E) + 1 /\ \A k \in 1..Len(e.E) : Len(e.E[k]) = 2, "edges_are_pairs_one_added" >>,
                   << { Key(e.E[k][1], e.E[k][2]) : k \in 1..Len(e.E) }
                        = ({ Key(s.E[k][1], s.E[k][2]) : k \in 1..Len(s.E) } \ {Key(A, Bv)}) \cup {Key(A, nC), Key(Bv, nC)},
                      "edge_replaced_by_its_two_halves" >> >>, "polyline", "", [s EXCEPT !.V = e.V, !.E = e.E])
  ELSE IF ~s.ok THEN Skip(s)
  ELSE IF op = "enter" THEN Ok(s)
  ELSE IF op = "exit" THEN
       LET Dr == Derive(e.F, Len(e.V), e.E)
       IN Check(<< << e.exc = "", "block_exit_succeeds" >>,
                   << e.V = s.V /\ e.F = s.F, "result_is_what_the_editor_built" >>,
                   << EdgesAreSides(Dr), "result_edges_are_the_sides_of_its_faces" >>,
                   << e.input_after = e.input_before \/ e.input_after = e.result_proj,
                      "input_object_unchanged_or_equal_to_result" >> >>,
                e.opsclass \o (IF e.queried = 1 THEN "/queried_before" ELSE "/fresh"), "", s)
  ELSE IF e.exc # "" THEN Bad("operation_accepts_admissible_mesh", op \o "/" \o cls, e.exc, s)
  ELSE
  LET Dpost == Derive(e.F, Len(e.V), <<>>)
      nvp == Len(s.V)
      nfp == Len(s.F)
      nep == NEdges(s.D)
      wasTri == AllTri(s.F)
      tV == TriV(nvp, s.F)
      tF == TriF(s.F)
      tE == TriE(s.D)
      common == SameTopology(s.D, Dpost) \o
                << << OldInPlace(s.V, e.V), "original_vertices_in_place" >>,
                   << VectorArea2(e.V, e.F) = VectorArea2(s.V, s.F), "same_total_area" >> >>
      new == NewVerts(s.V, e.V)
      specific ==
        CASE op = "triangulate_face" ->
               LET n == Len(s.F[e.f + 1]) IN
               << << Len(e.F) = nfp + (IF n = 3 THEN 0 ELSE IF n = 4 THEN 1 ELSE n - 1)
                     /\ Len(e.V) = nvp + (IF n > 4 THEN 1 ELSE 0), "documented_element_counts" >>,
                  << n <= 4 \/ new = <<Bary(s.V, s.F[e.f + 1])>>, "new_vertex_at_face_centre" >> >>
          [] op = "split_face_as_fan" ->
               LET n == Len(s.F[e.f + 1]) IN
               << << Len(e.F) = nfp + n - 1 /\ Len(e.V) = nvp + 1, "documented_element_counts" >>,
                  << new = <<Bary(s.V, s.F[e.f + 1])>>, "new_vertex_at_face_centre" >> >>
          [] op = "triangulate" ->
               << << Len(e.F) = tF /\ Len(e.V) = tV /\ AllTri(e.F), "documented_element_counts" >>,
                  << SameBag(new, FaceCentres(s.V, SelectSeq(s.F, LAMBDA f : Len(f) > 4))), "new_vertex_at_face_centre" >> >>
          [] op = "loop_subdivision" ->
               LET k == LoopCounts(tV, tE, tF, e.n) IN
               << << Len(e.V) = k[1] /\ Len(e.F) = k[3] /\ AllTri(e.F), "documented_element_counts" >>,
                  << ~wasTri \/ e.n # 1 \/ SameBag(new, EdgeMidpoints(s.V, s.D)), "new_vertices_at_edge_midpoints" >> >>
          [] op = "subdivide_triangles_3quads" ->
               << << Len(e.V) = tV + tE + tF /\ Len(e.F) = 3 * tF /\ AllQuad(e.F), "documented_element_counts" >>,
                  << ~wasTri \/ SameBag(new, EdgeMidpoints(s.V, s.D) \o FaceCentres(s.V, s.F)), "new_vertices_at_edge_and_face_centres" >> >>
          [] op = "subdivide_triangles_6" ->
               LET k == SixCounts(tV, tE, tF, e.n) IN
               << << Len(e.V) = k[1] /\ Len(e.F) = k[3] /\ AllTri(e.F), "documented_element_counts" >>,
                  << ~wasTri \/ e.n # 1 \/ SameBag(new, EdgeMidpoints(s.V, s.D) \o FaceCentres(s.V, s.F)), "new_vertices_at_edge_and_face_centres" >> >>
          [] op = "split_ears" ->       \* every triangle with a vertex of degree 2 (an ear: two of its sides on the border) is fan-split, once
               LET deg(v) == Cardinality({ k \in s.D.ES : v \in {k[1], k[2]} })
                   K == { f \in 1..nfp : \E i \in 1..Len(s.F[f]) : deg(s.F[f][i]) = 2 }
               IN << << ~wasTri \/ (Len(e.F) = nfp + 2 * Cardinality(K) /\ Len(e.V) = nvp + Cardinality(K)), "documented_element_counts" >>,
                     << ~wasTri \/ SameBag(new, FaceCentres(s.V, SelectSeq(s.F, LAMBDA f : \E i \in 1..Len(f) : deg(f[i]) = 2))), "new_vertex_at_face_centre" >> >>
          [] OTHER -> << << FALSE, "unknown_operation" >> >>
  IN Check(specific \o common, op \o "/" \o cls, "", Adv(s, e))

W == INSTANCE Walker
Spec == W!Spec
=============================================================================
