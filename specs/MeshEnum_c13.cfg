CONSTANTS
  NV = 5
  MaxF = 3
  MaxAr = 5
  EmitOn = TRUE
SPECIFICATION Spec
INVARIANT OracleSane
INVARIANT Emit
CHECK_DEADLOCK FALSE
