------------------------------ MODULE C03_MC ------------------------------
(* Lazy caches of VolumeMesh / VolumeMesh.connectivity as a state machine (cf. C01_MC).      *)
(* AsBuilt = {"e2f_not_initialised"}: the pinned source never creates the edge-to-face table   *)
(* in the constructor, so the guard of edge_to_face itself fails on a fresh mesh.               *)
EXTENDS Naturals, Sequences, FiniteSets, TLC, Json
CONSTANTS AsBuilt, D, EmitOn
VARIABLES caches, failed, hist
vars == <<caches, failed, hist>>
CellAdjQ == {"face_to_cells", "cell_to_face", "other_face_side", "is_face_on_border"}
PlainQ == {"in_cell_index", "in_cell_face_index", "common_face"}
Kinds == CellAdjQ \cup PlainQ \cup {"cell_to_cell", "vertex_to_cell", "edge_to_face", "edge_to_cell", "cell_to_edge",
          "boundary_faces", "interior_faces", "boundary_edges", "interior_edges", "is_edge_on_border",
          "boundary_vertices", "interior_vertices", "is_vertex_on_border", "boundary_connectivity", "extract_boundary",
          "clear"}
Inits(q) == CASE q \in CellAdjQ -> {"cell_adj", "face_id"}
              [] q = "common_face" -> {"face_id"}
              [] q = "cell_to_cell" -> {"adjacent_cell", "cell_adj", "face_id"}
              [] q = "vertex_to_cell" -> {"conn"}
              [] q \in {"edge_to_face", "edge_to_cell"} -> {"edge_id", "cell_adj", "face_id"}
              [] q = "cell_to_edge" -> {"edge_id", "cell_adj", "face_id"}
              [] q \in {"boundary_faces", "interior_faces", "extract_boundary"} -> {"bnd_f", "cell_adj", "face_id"}
              [] q \in {"boundary_edges", "interior_edges", "is_edge_on_border"} -> {"bnd_e", "bnd_f", "cell_adj", "face_id", "edge_id"}
              [] q \in {"boundary_vertices", "interior_vertices", "is_vertex_on_border"} -> {"bnd_v", "bnd_f", "cell_adj", "face_id"}
              [] q = "boundary_connectivity" -> {"bconn", "bnd_e", "bnd_f", "cell_adj", "face_id", "edge_id"}
              [] OTHER -> {}
(* edge_to_face reads the table BEFORE its guard can build it: it needs the attribute to exist *)
Needs(q) == IF q = "edge_to_face" /\ "e2f_not_initialised" \in AsBuilt THEN {"e2f_attr"} ELSE {}
Adds(q)  == IF q \in {"edge_to_face", "edge_to_cell", "cell_to_edge", "boundary_edges", "interior_edges", "is_edge_on_border",
                      "boundary_connectivity", "clear"} THEN {"e2f_attr"} ELSE {}
Drops(q) == IF q = "clear" THEN {"conn", "edge_id", "face_id", "cell_adj", "adjacent_cell"} ELSE {}
Init == caches = {} /\ failed = FALSE /\ hist = <<>>
Query(q) == /\ failed' = ~(Needs(q) \subseteq caches)
            /\ caches' = IF Needs(q) \subseteq caches THEN (caches \cup Inits(q) \cup Adds(q)) \ Drops(q) ELSE caches
            /\ hist' = Append(hist, q)
Next == Len(hist) < D /\ \E q \in Kinds : Query(q)
Spec == Init /\ [][Next]_vars
NoSpuriousFailure == ~failed
View == <<caches, failed>>
Emit == EmitOn => PrintT(ToJson([k |-> "H", h |-> hist]))
=============================================================================
