CONSTANTS
  NV = 6
  MaxF = 5
  MaxAr = 3
  EmitOn = TRUE
SPECIFICATION Spec
INVARIANT Emit
CHECK_DEADLOCK FALSE
