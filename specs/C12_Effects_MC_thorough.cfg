CONSTANTS
  AsBuilt = {}
  D = 6
  EmitOn = TRUE
SPECIFICATION Spec
PROPERTY NoSideEffects
CONSTRAINT Emit
VIEW View
CHECK_DEADLOCK FALSE
