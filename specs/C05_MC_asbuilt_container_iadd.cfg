CONSTANTS
  AsBuilt = {"container_iadd_n_elem"}
  MaxSize = 3
  D = 4
  Configs = {"float2", "int1", "str1", "bool1", "complex3"}
  EmitOn = FALSE
SPECIFICATION Spec
INVARIANT TotalMapS
INVARIANT TotalMapD
INVARIANT Aligned
INVARIANT SparseDenseAgree
INVARIANT DenseOutOfBounds
INVARIANT GrowthAccepted
PROPERTY NoCrossAliasing
CONSTRAINT Emit
VIEW View
CHECK_DEADLOCK FALSE
