------------------------------- MODULE C08_MC -------------------------------
(* Theorems about the definitions on planar lattice triangulations (each (mesh, affine function) is   *)
(* one initial state): the stiffness matrix is symmetric with zero row sums; Re(G* A G) equals it; the     *)
(* gradient of an affine function is that function's constant gradient; vertex masses sum to 3 x area,      *)
(* edge and face masses to the area; the graph Laplacian is degree minus adjacency.                          *)
EXTENDS C08_Operators
VARIABLES mesh, ab
Grid(nx, ny, sx, sy, diag) ==
  LET idx(i, j) == i * (ny + 1) + j IN
  [P |-> [k \in 1..((nx + 1) * (ny + 1)) |-> << sx * ((k - 1) \div (ny + 1)), sy * ((k - 1) % (ny + 1)), 0 >>],
   F |-> FlattenSeq([k \in 1..(nx * ny) |->
            LET i == (k - 1) \div ny
                j == (k - 1) % ny
            IN IF (diag = 0) \/ (diag = 2 /\ (i + j) % 2 = 0)
               THEN << <<idx(i, j), idx(i + 1, j), idx(i + 1, j + 1)>>, <<idx(i, j), idx(i + 1, j + 1), idx(i, j + 1)>> >>
               ELSE << <<idx(i, j), idx(i + 1, j), idx(i, j + 1)>>, <<idx(i + 1, j), idx(i + 1, j + 1), idx(i, j + 1)>> >>]),
   C |-> <<>>]
WithE(g) == g @@ [E |-> SetToSeq(UNION { { Key(g.F[k][i], g.F[k][(i % 3) + 1]) : i \in 1..3 } : k \in 1..Len(g.F) })]
Shear(g, k) == [g EXCEPT !.P = [i \in 1..Len(g.P) |-> << g.P[i][1] + k * g.P[i][2], g.P[i][2], 0 >>]]       \* obtuse triangles, negative cotangents
Init == /\ mesh \in { WithE(Shear(Grid(2, 2, 1, 1, 0), 2)), WithE(Shear(Grid(2, 1, 1, 2, 1), -3)), WithE(Grid(2, 2, 1, 1, 0)), WithE(Grid(2, 2, 1, 1, 2)), WithE(Grid(2, 1, 3, 4, 1)), WithE(Grid(3, 2, 2, 1, 0)) }
        /\ ab \in { <<1, 0>>, <<0, 1>>, <<2, -3>> }
Next == UNCHANGED <<mesh, ab>>
Spec == Init /\ [][Next]_<<mesh, ab>>
D == Derive(mesh.F, Len(mesh.P), mesh.E)
L == Stiffness(mesh, D)
G(f, v) == GradEntry(mesh, f, v - 1, 1)
CMulConjRe(a, b) == RAdd(RMul(a[1], b[1]), RMul(a[2], b[2]))         \* Re(conj(a) * b)
GAG == Mat(Len(mesh.P), Len(mesh.P), LAMBDA i, j : RSum([f \in 1..Len(mesh.F) |-> RMul(FArea(mesh, f), CMulConjRe(G(f, i), G(f, j)))]))
Theorems ==
  /\ CotAvail(mesh, D) /\ AreaAvail(mesh) /\ Planar(mesh)
  /\ IsSym(L) /\ RowSumsZero(L)
  /\ GAG = L
  /\ \A f \in 1..Len(mesh.F) :          \* gradient of  a*x + b*y  is (a, b) in every face
        LET val(v) == ab[1] * Pt(mesh, v)[1] + ab[2] * Pt(mesh, v)[2]
            gr == [c \in 1..2 |-> RSum([i \in 1..3 |-> RMul(R(val(mesh.F[f][i])), G(f, mesh.F[f][i] + 1)[c])])]
        IN gr = <<R(ab[1]), R(ab[2])>>
  /\ RSum(VertexMass(mesh)) = RMul(R(3), TotalArea(mesh)) /\ RSum(EdgeMass(mesh)) = TotalArea(mesh) /\ RSum(FaceMass(mesh)) = TotalArea(mesh)
  /\ \A v \in 1..Len(mesh.P) : RLt(Zero, VertexMass(mesh)[v])
  /\ IsSym(GraphLaplacian(mesh)) /\ RowSumsZero(GraphLaplacian(mesh))
  /\ DualAvail(mesh, D) => IsSym(DualLaplacian(mesh, D, TRUE)) /\ RowSumsZero(DualLaplacian(mesh, D, TRUE))
=============================================================================
