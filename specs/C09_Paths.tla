------------------------------ MODULE C09_Paths ------------------------------
(* Dijkstra with lazy deletion, at the grain of mouette.processing.paths: one step = pop an  *)
(* entry of minimum priority; if its vertex is already visited nothing else happens; otherwise *)
(* the vertex is visited, every neighbour is relaxed and every unvisited neighbour is pushed    *)
(* with its current distance.  State s = [dist, pred, visited, bag (set of <<v, p, k>>, k makes  *)
(* duplicates distinct), nk].                                                                    *)
EXTENDS Graph, SequencesExt

SetToSeqOrder(S) == SetToSeq(S)       \* any order: the entries are told apart by their sequence number only

DInit(G, start) == [dist |-> [v \in GNodes(G) |-> IF v = start THEN 0 ELSE INF], pred |-> [v \in GNodes(G) |-> -1],
                    visited |-> {}, bag |-> {<<start, 0, 0>>}, nk |-> 1]
MinPrio(s) == CHOOSE p \in { e[2] : e \in s.bag } : \A e \in s.bag : p <= e[2]
Nbrs(G, v) == { p[2] : p \in { q \in G.A : q[1] = v } }
(* the step that pops entry e (which must have minimum priority) *)
DStep(G, W, s, e) ==
  LET v == e[1]
      rest == s.bag \ {e}
  IN IF v \in s.visited THEN [s EXCEPT !.bag = rest]
     ELSE LET nd == TLCEval([u \in GNodes(G) |-> IF u \in Nbrs(G, v) /\ s.dist[v] + W[<<v, u>>] < s.dist[u] THEN s.dist[v] + W[<<v, u>>] ELSE s.dist[u]])
              np == TLCEval([u \in GNodes(G) |-> IF u \in Nbrs(G, v) /\ s.dist[v] + W[<<v, u>>] < s.dist[u] THEN v ELSE s.pred[u]])
              push == SetToSeqOrder(Nbrs(G, v) \ (s.visited \cup {v}))
          IN [dist |-> nd, pred |-> np, visited |-> s.visited \cup {v},
              bag |-> rest \cup { <<push[i], nd[push[i]], s.nk + i - 1>> : i \in 1..Len(push) }, nk |-> s.nk + Len(push)]
(* back-tracking the predecessor table from t *)
RECURSIVE BackTrack(_, _, _, _)
BackTrack(pred, start, t, fuel) == IF t = start \/ fuel = 0 \/ t = -1 THEN <<t>> ELSE BackTrack(pred, start, pred[t], fuel - 1) \o <<t>>

(* what a returned path must be *)
IsShortestPath(G, W, D, start, t, p) ==
  /\ Len(p) >= 1 /\ p[1] = start /\ p[Len(p)] = t /\ IsWalk(G, p) /\ WalkWeight(W, p) = D[t]
NearestOf(D, T) == { t \in T : \A u \in T : D[t] <= D[u] }
=============================================================================
