CONSTANTS
  EmitOn = TRUE
  Big = TRUE
SPECIFICATION Spec
INVARIANT BuildIsWellFormed
INVARIANT BuildAgainChangesNothing
INVARIANT CornersMatch
INVARIANT Emit
CHECK_DEADLOCK FALSE
