------------------------------ MODULE C19_Trace ------------------------------
(* Samplers: count rules and domain predicates (recorded per sample by the harness with exact float comparisons;  *)
(* TLC demands that all hold).  Bezier: exact evaluation against the Bernstein form, export grids via MeshCore.     *)
EXTENDS TraceKit, C19_Bezier, MeshCore
VARIABLES ci, ei, st, nj, ns, ne
InitState(c) == [x |-> 0]
AllOne(q) == \A i \in 1..Len(q) : q[i] = 1
Judge(c, s, e) ==
  LET op == e.op IN
  CASE op = "sample" ->          \* e.kind, e.n (requested), e.dim, e.mode, e.count, e.inside (flags), e.exact (rationals that must equal e.want)
         IF e.exc # "" THEN Bad("sampler_succeeds", e.kind, e.exc, s)
         ELSE LET wantCount == IF e.kind = "aabb" /\ e.mode = "grid" THEN IPow(GridRes(e.n, e.dim), e.dim) ELSE e.n
              IN Check(<< << e.count = wantCount, "exactly_the_requested_number_of_points" >>,
                          << Len(e.inside) = e.count /\ AllOne(e.inside), "all_samples_inside_the_requested_domain" >>,
                          << \A i \in 1..Len(e.exact) : e.exact[i] = e.want, "samples_at_the_requested_radius_from_the_requested_centre" >> >>,
                       e.kind \o "/" \o e.mode \o "/" \o e.pcls, "", s)
    [] op = "bezier_curve" ->     \* e.P (integer control points), e.t = <<k, n>>, e.ret
         IF e.t[1] < 0 \/ e.t[1] > e.t[2] THEN (IF e.exc # "" THEN Ok(s) ELSE Bad("parameter_outside_0_1_is_rejected", "curve", "", s))
         ELSE LET Q == [i \in 1..Len(e.P) |-> RPt(e.P[i])] IN
              Check(<< << e.exc = "", "evaluation_succeeds" >>, << e.ret = Bernstein(Q, Norm(e.t)), "curve_evaluates_to_its_bernstein_polynomial" >>,
                       << InBounds(e.ret, Q), "value_within_the_control_points_bounds" >> >>, "curve/order" \o ToString(Len(e.P) - 1), "", s)
    [] op = "bezier_patch" ->     \* e.N control net (rows of integer points), e.u, e.v
         IF e.u[1] < 0 \/ e.u[1] > e.u[2] \/ e.v[1] < 0 \/ e.v[1] > e.v[2] THEN (IF e.exc # "" THEN Ok(s) ELSE Bad("parameter_outside_0_1_is_rejected", "patch", "", s))
         ELSE LET N == [i \in 1..Len(e.N) |-> [j \in 1..Len(e.N[i]) |-> RPt(e.N[i][j])]] IN
              Check(<< << e.exc = "", "evaluation_succeeds" >>, << e.ret = PatchBernstein(N, Norm(e.u), Norm(e.v)), "patch_evaluates_to_its_bernstein_polynomial" >> >>,
                    "patch/" \o ToString(Len(e.N)) \o "x" \o ToString(Len(e.N[1])), "", s)
    [] op = "as_polyline" ->      \* e.P, e.n, e.V (vertices as rationals), e.E
         LET Q == [i \in 1..Len(e.P) |-> RPt(e.P[i])]
             pad(x) == IF Len(x) = 2 THEN x \o <<R(0)>> ELSE x
         IN Check(<< << e.exc = "", "export_succeeds" >>, << Len(e.V) = e.n /\ Len(e.E) = e.n - 1, "documented_element_counts" >>,
                     << \A i \in 1..Len(e.E) : e.E[i] = <<i - 1, i>>, "polyline_indices_in_range_and_consecutive" >>,
                     << \A i \in 1..Len(e.V) : e.V[i] = pad(Bernstein(Q, Norm(<<i - 1, e.n - 1>>))), "vertices_are_curve_points" >> >>, "curve_export", "", s)
    [] op = "as_surface" ->       \* e.N, e.n1, e.n2, e.V, e.F
         LET N == [i \in 1..Len(e.N) |-> [j \in 1..Len(e.N[i]) |-> RPt(e.N[i][j])]]
             D == Derive(e.F, Len(e.V), <<>>)
         IN Check(<< << e.exc = "", "export_succeeds" >>, << Len(e.V) = e.n1 * e.n2 /\ Len(e.F) = (e.n1 - 1) * (e.n2 - 1), "documented_element_counts" >>,
                     << InRangeF(D), "indices_in_range" >>,
                     << e.F = GridQuads(e.n1, e.n2), "grid_consistent_indices" >>,
                     << IsManifold(D) /\ IsDisk(D), "exported_patch_is_a_disk" >>,
                     << \A i \in 0..(e.n1 - 1) : \A j \in 0..(e.n2 - 1) :
                           e.V[i * e.n2 + j + 1] = PatchBernstein(N, Norm(<<i, e.n1 - 1>>), Norm(<<j, e.n2 - 1>>)), "vertices_are_patch_points" >> >>,
                  IF e.n1 = e.n2 THEN "patch_export/equal" ELSE "patch_export/unequal", "", s)
    [] OTHER -> Bad("unknown_operation", op, "", s)
W0 == INSTANCE Walker
Spec == W0!Spec
=============================================================================
