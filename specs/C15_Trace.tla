------------------------------ MODULE C15_Trace ------------------------------
(* Border extraction and feature detection of the real library, judged from the face list and  *)
(* integer lattice coordinates.   given = [n, F, E (as built), P (integer points), hard (edge ids    *)
(* flagged hard by construction), family]                                                            *)
EXTENDS TraceKit, C15_Border
VARIABLES ci, ei, st, nj, ns, ne

InitState(c) == LET D == Derive(c.given.F, c.given.n, c.given.E)
                IN [g |-> c.given, D |-> D, ok |-> IsManifold(D) /\ EdgesAreSides(D)]
P3(s, v) == s.g.P[v + 1]
Sub(a, b) == << a[1] - b[1], a[2] - b[2], a[3] - b[3] >>
Crs(a, b) == << a[2] * b[3] - a[3] * b[2], a[3] * b[1] - a[1] * b[3], a[1] * b[2] - a[2] * b[1] >>
Dt(a, b) == a[1] * b[1] + a[2] * b[2] + a[3] * b[3]
FaceN(s, f) == LET t == s.g.F[f + 1] IN Crs(Sub(P3(s, t[2]), P3(s, t[1])), Sub(P3(s, t[3]), P3(s, t[1])))    \* integer normal (first three vertices)
(* dot of the UNIT normals compared with num/den, by integers only: -1 below, 0 exactly on, 1 above *)
CmpDot(n1, n2, num, den) ==
  LET d == Dt(n1, n2)
      q == Dt(n1, n1) * Dt(n2, n2)
  IN IF d < 0 THEN -1 ELSE IF d * d * den * den < num * num * q THEN -1 ELSE IF d * d * den * den = num * num * q THEN 0 ELSE 1
InteriorEdges(s) == { k \in 0..(Len(s.g.E) - 1) : HasHE(s.D, s.g.E[k + 1][1], s.g.E[k + 1][2]) /\ HasHE(s.D, s.g.E[k + 1][2], s.g.E[k + 1][1]) }
EdgeCmp(s, k, num, den) == LET u == s.g.E[k + 1][1]
                               v == s.g.E[k + 1][2]
                           IN CmpDot(FaceN(s, DirectFace(s.D, u, v)), FaceN(s, DirectFace(s.D, v, u)), num, den)
OnAThreshold(s) == \E k \in InteriorEdges(s) : EdgeCmp(s, k, 1, 2) = 0 \/ (k \in SeqToSet(s.g.hard) /\ EdgeCmp(s, k, 4, 5) = 0)
Degenerate(s) == \E f \in 0..(Len(s.g.F) - 1) : FaceN(s, f) = <<0, 0, 0>>
FeatureSet(s, onlyBorder) ==
  LET border == { k \in 0..(Len(s.g.E) - 1) : IsBorderEdge(s.D, s.g.E[k + 1][1], s.g.E[k + 1][2]) }
  IN IF onlyBorder THEN border
     ELSE border \cup { k \in InteriorEdges(s) : EdgeCmp(s, k, 1, 2) = -1 }                        \* normals more than 60 degrees apart
                 \cup { k \in InteriorEdges(s) \cap SeqToSet(s.g.hard) : EdgeCmp(s, k, 4, 5) = -1 }  \* declared hard, more than ~37 degrees
(* corner angle as a multiple of pi/4 (0 = not such a multiple) *)
AngK(s, c) == LET h == Cn(s.D, c)
                  u == Sub(P3(s, h.pv), P3(s, h.v))
                  w == Sub(P3(s, h.nx), P3(s, h.v))
                  d == Dt(u, w)
                  c2 == Dt(Crs(u, w), Crs(u, w))
              IN IF d = 0 THEN 2 ELSE IF d > 0 /\ d * d = c2 THEN 1 ELSE IF d < 0 /\ d * d = c2 THEN 3 ELSE IF c2 = 0 /\ d < 0 THEN 4 ELSE 0
RECURSIVE SumK(_, _)
SumK(s, cs) == IF cs = {} THEN 0 ELSE LET c == CHOOSE x \in cs : TRUE IN AngK(s, c) + SumK(s, cs \ {c})
CornerOk(s, v, order, val) ==
  LET cs == s.D.cv[v] IN
  IF \E c \in cs : AngK(s, c) = 0 THEN TRUE                      \* angle sum is not an exact multiple of pi/4: not judged
  ELSE LET x == order * SumK(s, cs) IN
       IF x < 8 THEN val = 1 ELSE IF x % 8 = 4 THEN TRUE ELSE val = (x + 4) \div 8
Pairs2(q) == { <<q[i][1], q[i][2]>> : i \in 1..Len(q) }
Lookup(q, v) == (CHOOSE p \in SeqToSet(q) : p[1] = v)[2]

Judge(c, s, e) ==
  LET D == s.D
      fam == s.g.family
  IN
  IF ~s.ok THEN Skip(s)
  ELSE IF e.op = "features" /\ (Degenerate(s) \/ OnAThreshold(s)) THEN Skip(s)       \* zero-area face / dihedral exactly on a threshold
  ELSE IF e.exc # "" /\ ~(e.op = "border_cycle" /\ e.start \notin BorderVerts(D)) THEN Bad("call_succeeds", fam, e.exc, s)
  ELSE
  CASE e.op = "border_cycle" ->
         IF e.start \notin BorderVerts(D)       \* rejected, or (mesh without border) answered with nothing
         THEN (IF e.exc # "" \/ e.vs = <<>> THEN Ok(s) ELSE Bad("start_off_the_border_is_rejected", fam, "", s))
         ELSE Check(<< << IsBorderCycle(D, e.start, e.vs, e.es), "cycle_is_the_border_loop_of_its_start_once" >> >>, fam, "", s)
    [] e.op = "border_cycle_all" ->
         Check(<< << Len(e.cycles) = NBorderLoops(D), "as_many_cycles_as_border_loops" >>,
                  << \A i \in 1..Len(e.cycles) : Len(e.cycles[i]) >= 3 /\ IsBorderCycle(D, e.cycles[i][1], e.cycles[i],
                        [j \in 1..Len(e.cycles[i]) |-> EdgeId(D, e.cycles[i][j], e.cycles[i][(j % Len(e.cycles[i])) + 1])]),
                     "each_cycle_is_a_border_loop" >>,
                  << \A i, j \in 1..Len(e.cycles) : i # j => SeqToSet(e.cycles[i]) \cap SeqToSet(e.cycles[j]) = {}, "each_loop_exactly_once" >> >>, fam, "", s)
    [] e.op = "boundary_of_surface" ->
         (* e.map: pairs <<x, y>>; accepted in either direction as long as it is a bijection border vertices <-> polyline vertices *)
         LET m1 == Pairs2(e.map)
             fwd == { p[1] : p \in m1 } = BorderVerts(D)                 \* surface -> polyline
             m == IF fwd THEN m1 ELSE { <<p[2], p[1]>> : p \in m1 }       \* normalised: surface vertex -> polyline vertex
             img(v) == (CHOOSE p \in m : p[1] = v)[2]
             bedges == { Key(D.E[k][1], D.E[k][2]) : k \in { j \in 1..Len(D.E) : IsBorderEdge(D, D.E[j][1], D.E[j][2]) } }
         IN Check(<< << { p[1] : p \in m } = BorderVerts(D) /\ { p[2] : p \in m } = 0..(e.nvb - 1) /\ Cardinality(m) = e.nvb
                        /\ e.nvb = Cardinality(BorderVerts(D)), "index_map_is_a_bijection_with_the_border_vertices" >>,
                     << Cardinality(m) # e.nvb \/ { p[1] : p \in m } # BorderVerts(D)
                        \/ ( { Key(e.eb[k][1], e.eb[k][2]) : k \in 1..Len(e.eb) } = { Key(img(b[1]), img(b[2])) : b \in bedges }
                             /\ Len(e.eb) = Cardinality(bedges) ), "border_polyline_has_exactly_the_border_edges" >>,
                     << Cardinality(m) # e.nvb \/ { p[1] : p \in m } # BorderVerts(D)
                        \/ \A p \in m : e.pb[p[2] + 1] = s.g.P[p[1] + 1], "polyline_vertices_keep_their_positions" >> >>, fam, "", s)
    [] e.op = "features" ->
         IF Degenerate(s) \/ OnAThreshold(s) THEN Skip(s)
         ELSE LET FE == FeatureSet(s, e.only_border = 1)
                  FV == UNION { {D.E[k + 1][1], D.E[k + 1][2]} : k \in FE }
                  degOf(v) == Cardinality({ k \in FE : v \in {D.E[k + 1][1], D.E[k + 1][2]} })
              IN Check(<< << SeqToSet(e.fe) = FE /\ Len(e.fe) = Cardinality(FE), "feature_edges_are_border_plus_sharp_plus_declared_hard" >>,
                          << SeqToSet(e.fv) = FV /\ Len(e.fv) = Cardinality(FV), "feature_vertices_are_the_end_points" >>,
                          << \A v \in FV : Lookup(e.deg, v) = degOf(v), "feature_degree_counts_incident_feature_edges" >>,
                          << \A v \in FV : LET ring == Lookup(e.vte, v) IN
                                SeqToSet(Lookup(e.local, v)) = { i - 1 : i \in { j \in 1..Len(ring) : ring[j] \in FE } }, "local_indices_point_at_feature_edges" >>,
                          << e.flag_corners = 0 \/ \A v \in FV : CornerOk(s, v, e.corner_order, Lookup(e.corners, v)), "corner_order_matches_angle_sum" >> >>,
                       fam \o (IF e.only_border = 1 THEN "/only_border" ELSE "") \o (IF Len(s.g.hard) > 0 THEN "/with_hard_edges" ELSE ""), "", s)
    [] OTHER -> Bad("unknown_operation", e.op, "", s)
W0 == INSTANCE Walker
Spec == W0!Spec
=============================================================================
