------------------------------- MODULE C11_MC -------------------------------
(* Build machine for EVERY sequence of NP points of {0,2,4}^Dim, every admissible pivot choice. *)
(*   Terminates (under weak fairness): <>(queue = <<>>)                                           *)
(*   Partition: at every moment the leaves in the queue and the closed leaves partition the index   *)
(*   set; every closed leaf respects the half-spaces of the splits above it (kept in `box`).         *)
EXTENDS C11_KD, Json
CONSTANTS NP, Dim, Leaf, Strategy, AsBuilt, EmitOn
VARIABLES pts, queue, closed, hist
vars == <<pts, queue, closed, hist>>
Grid == {0, 2, 4}
Init == /\ pts \in [1..NP -> [1..Dim -> Grid]] /\ hist = <<>> /\ closed = {}
        /\ queue = << [S |-> 0..(NP - 1), axis |-> 0, lo |-> [a \in 1..Dim |-> -1], hi |-> [a \in 1..Dim |-> 9]] >>
Close == /\ queue # <<>> /\ MustClose(pts, queue[1].S, Leaf, AsBuilt)
         /\ closed' = closed \cup {queue[1]} /\ queue' = Tail(queue) /\ UNCHANGED <<pts, hist>>
Split(p) == /\ queue # <<>> /\ ~MustClose(pts, queue[1].S, Leaf, AsBuilt)
            /\ LET l == queue[1]
                   sp == SplitOf(pts, l.S, l.axis, p, AsBuilt)
                   nx == (l.axis + 1) % Dim
               IN queue' = Tail(queue) \o << [S |-> sp[1], axis |-> nx, lo |-> l.lo, hi |-> [l.hi EXCEPT ![l.axis + 1] = p]],
                                            [S |-> sp[2], axis |-> nx, lo |-> [l.lo EXCEPT ![l.axis + 1] = p], hi |-> l.hi] >>
            /\ hist' = Append(hist, p) /\ UNCHANGED <<pts, closed>>
Next == Close \/ (\E p \in (IF queue = <<>> THEN {} ELSE Pivots(Strategy, pts, queue[1].S, queue[1].axis)) : Split(p))
Spec == Init /\ [][Next]_vars /\ WF_vars(Next)
Terminates == <>(queue = <<>>)
Live == { queue[i] : i \in 1..Len(queue) } \cup closed
Partition == /\ UNION { l.S : l \in Live } = 0..(NP - 1)
             /\ \A l1, l2 \in Live : l1 # l2 => (l1.S \cap l2.S = {} \/ l1.S = {} )
             /\ \A l \in Live : \A i \in l.S : \A a \in 1..Dim : l.lo[a] <= pts[i + 1][a] /\ pts[i + 1][a] <= l.hi[a]
(* the variant behind termination: a split either separates points or (at most Dim - 1 times in a row) only changes the axis *)
BoundedSplits == Len(hist) <= 2 * NP * Dim + 2
Emit == (EmitOn /\ queue = <<>>) => PrintT(ToJson([k |-> "B", pts |-> pts, pivots |-> hist]))
=============================================================================
