---------------------------- MODULE C18_Harm_MC ----------------------------
(* The connection Laplacian and the harmonic extension of the border constraints, exactly, on small planar      *)
(* pi/4-lattice meshes, for every way of starting a chosen set of faces at another vertex and a few renumberings *)
(* of the vertices:                                                                                               *)
(*   - the connection Laplacian is Hermitian; with all transports set to zero it is the scalar dual Laplacian;    *)
(*   - changing the starts / numbers conjugates it by the diagonal change of bases (gauge covariance);            *)
(*   - the harmonic extension, measured against the plane's own x axis, is the same for every variant, provided   *)
(*     the constraints of every face ask for the same frame (a face with two border sides that meet at an angle   *)
(*     which is not a multiple of 2 pi / n carries two incompatible ones: the library keeps one of them, chosen   *)
(*     by numbering - see DoubleConstraintDepends, expected to be violated).                                       *)
EXTENDS C18_FrameField, Json
CONSTANTS MeshId, Orders, Cotan, RotFaces
VARIABLES n, rotf, pi, cur, ref, lvl

Grid(nx, ny, diagOf(_, _)) ==         \* diagOf(i, j) = 0: the diagonal of cell (i, j) runs from its lower left corner, 1: from its lower right corner
  LET idx(i, j) == i * (ny + 1) + j IN
  [P |-> [k \in 1..((nx + 1) * (ny + 1)) |-> << (k - 1) \div (ny + 1), (k - 1) % (ny + 1), 0 >>],
   F |-> FlattenSeq([k \in 1..(nx * ny) |->
            LET i == (k - 1) \div ny
                j == (k - 1) % ny
            IN IF diagOf(i, j) = 0
               THEN << <<idx(i, j), idx(i + 1, j), idx(i + 1, j + 1)>>, <<idx(i, j), idx(i + 1, j + 1), idx(i, j + 1)>> >>
               ELSE << <<idx(i, j), idx(i + 1, j), idx(i, j + 1)>>, <<idx(i + 1, j), idx(i + 1, j + 1), idx(i, j + 1)>> >>])]
Grid2 == Grid(2, 2, LAMBDA i, j : 0)                                              \* 8 faces, two of them free, two with two border sides
UJ3 == Grid(3, 3, LAMBDA i, j : IF (i = 0 /\ j = 2) \/ (i = 2 /\ j = 0) THEN 1 ELSE 0)   \* 18 faces, six free, no face with two border sides
Pin2 == [P |-> << <<0,0,0>>, <<2,0,0>>, <<2,2,0>>, <<0,2,0>>, <<1,1,0>>, <<4,0,0>>, <<2,4,0>> >>,
         F |-> << <<0,1,4>>, <<1,2,4>>, <<2,3,4>>, <<3,0,4>>, <<1,5,2>>, <<2,6,3>> >>]       \* pinwheel with two flaps: cotangent weights all positive
Grid3 == Grid(3, 3, LAMBDA i, j : 0)
Base == CASE MeshId = "grid2" -> Grid2 [] MeshId = "grid3" -> Grid3 [] MeshId = "uj3" -> UJ3 [] MeshId = "pin2" -> Pin2
NV == Len(Base.P)
NF == Len(Base.F)
Perms == { [v \in 0..(NV - 1) |-> v], [v \in 0..(NV - 1) |-> NV - 1 - v], [v \in 0..(NV - 1) |-> (v * 2) % (NV + ((NV + 1) % 2))] }
IsPerm(p) == { p[v] : v \in 0..(NV - 1) } = 0..(NV - 1)
RotSeq(t, r) == [i \in 1..3 |-> t[((i - 1 + r) % 3) + 1]]
Variant(p, rf) ==
  LET P2 == [k \in 1..NV |-> Base.P[(CHOOSE v \in 0..(NV - 1) : p[v] = k - 1) + 1]]
      F2 == [f \in 1..NF |-> RotSeq([i \in 1..3 |-> p[Base.F[f][i]]], IF f \in DOMAIN rf THEN rf[f] ELSE 0)]
  IN [P |-> P2, F |-> F2, C |-> <<>>,
      E |-> SetToSeq(UNION { { Key(F2[k][i], F2[k][(i % 3) + 1]) : i \in 1..3 } : k \in 1..NF })]

(* direction of a planar lattice vector in units of pi/4 *)
VecK(d) == CASE d[1] > 0 /\ d[2] = 0 -> 0 [] d[1] > 0 /\ d[2] = d[1] -> 1 [] d[1] = 0 /\ d[2] > 0 -> 2 [] d[1] < 0 /\ d[2] = -d[1] -> 3
             [] d[1] < 0 /\ d[2] = 0 -> 4 [] d[1] < 0 /\ d[2] = d[1] -> 5 [] d[1] = 0 /\ d[2] < 0 -> 6 [] d[1] > 0 /\ d[2] = -d[1] -> 7
Solve(nn, g) ==         \* everything about one variant: Laplacian, direction of every basis in the plane, constraints, extension
  LET D == Derive(g.F, Len(g.P), g.E)
      FE == BorderKeys(g, D)
      L == TLCEval(ConnLap(g, D, FE, nn, Cotan))
      alpha == [f \in 1..NF |-> LET b == BaseIdx(g, FE, f) IN VecK(ISub(Pt(g, SideV(g, f, b)[2]), Pt(g, SideV(g, f, b)[1])))]
      fix == SortedSeq(Fixed(g, FE))
      free == SortedSeq((1..NF) \ Fixed(g, FE))
      zfix == [q \in 1..Len(fix) |-> COne]                 \* a face with one border side is aligned with it; so is, with the first of them, a face with two (the library's rule for the orders and meshes used here)
      h == IF GaussianLap(L) THEN Harmonic(L, free, fix, zfix) ELSE [ok |-> FALSE, x |-> <<>>]
      val == [f \in 1..NF |-> IF f \in Fixed(g, FE) THEN COne ELSE IF h.ok THEN h.x[CHOOSE r \in 1..Len(free) : free[r] = f] ELSE CZero]
  IN [L |-> L, alpha |-> alpha, ok |-> h.ok /\ WeightsOk(g, D, Cotan) /\ Lattice(g) /\ SimplePairs(g, D),
      val |-> val, compat |-> DoubleOk(g, FE, nn),
      gsq |-> [f \in 1..NF |-> IF CIsZero(val[f]) THEN CZero ELSE CMul(Dir2(val[f]), Unit8(2 * nn * alpha[f]))],          \* (direction)^2 against the x axis of the plane
      gsg |-> [f \in 1..NF |-> IF (nn * alpha[f]) % 2 = 0 THEN Signs(CMul(val[f], Unit8(nn * alpha[f]))) ELSE << 9, 9 >>]]
RotSeqOf == SortedSeq(RotFaces)
Init == /\ n \in Orders
        /\ pi \in { p \in Perms : IsPerm(p) }
        /\ rotf = << >>
        /\ lvl = 0
        /\ ref = Solve(n, Variant([v \in 0..(NV - 1) |-> v], << >>))
        /\ cur = Solve(n, Variant(pi, << >>))
Turn == /\ lvl < Len(RotSeqOf)            \* the faces of RotFaces are started at another vertex one after the other (a tree, so that all workers share it)
        /\ lvl' = lvl + 1
        /\ \E r \in 0..2 : rotf' = rotf @@ (RotSeqOf[lvl + 1] :> r)
        /\ cur' = Solve(n, Variant(pi, rotf'))
        /\ UNCHANGED << n, pi, ref >>
Next == Turn
Spec == Init /\ [][Next]_<< n, rotf, pi, cur, ref, lvl >>
Ref == ref
Cur == cur
CurMesh == Variant(pi, rotf)

HermitianThm == Hermitian(Cur.L)
FlatThm == LET g == CurMesh
               D == Derive(g.F, Len(g.P), g.E)
           IN (lvl = 0 /\ WeightsOk(g, D, Cotan)) => FlatReduces(ConnLap(g, D, BorderKeys(g, D), 0, Cotan), DualLaplacian(g, D, Cotan))     \* order 0 = every transport phase is 0
GaugeThm == \A a, b \in 1..NF :        \* L'[a][b] = conj(u_a) L[a][b] u_b  with  u_f = exp(i n (alpha_f - alpha'_f))
              LET la == Ref.L[a][b]
                  lb == Cur.L[a][b]
              IN la.w = lb.w /\ (RIsZero(la.w) \/ Mod(lb.k - la.k + n * (Cur.alpha[a] - Ref.alpha[a]) - n * (Cur.alpha[b] - Ref.alpha[b]), 8) = 0)
InvarianceThm == (Cur.ok /\ Ref.ok /\ Cur.compat /\ Ref.compat)
                   => \A f \in 1..NF : Cur.gsq[f] = Ref.gsq[f] /\ (Cur.gsg[f] = Ref.gsg[f] \/ 9 \in { Cur.gsg[f][1], Ref.gsg[f][1] })
Solved == Ref.ok /\ (n % 2 = 0 => Cur.ok)
(* expected to be violated on a mesh with a face that has two border sides, for an order other than 4 *)
DoubleConstraintDepends == (Cur.ok /\ Ref.ok) => \A f \in 1..NF : Cur.gsq[f] = Ref.gsq[f] /\ Cur.gsg[f] = Ref.gsg[f]
(* expected to be violated: the extension has a zero (the normalised field has no direction there) *)
NeverVanishes == Cur.ok => \A f \in 1..NF : ~CIsZero(Cur.val[f])
=============================================================================
