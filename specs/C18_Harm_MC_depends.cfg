SPECIFICATION Spec
CONSTANTS
  MeshId = "grid2"
  Orders = {2}
  Cotan = FALSE
  RotFaces = {3, 4, 5, 6, 8}
INVARIANT DoubleConstraintDepends
CHECK_DEADLOCK FALSE
