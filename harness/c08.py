"""C08 - discrete differential operators satisfy their defining identities.

Stage A  C08_MC: on planar lattice triangulations the exact stiffness matrix is symmetric with zero row sums,
         Re(G* A G) equals it, the gradient of an affine function is its constant gradient, masses sum to the stated
         multiples of the area, the graph and dual Laplacians are symmetric with zero row sums.
Stage B  the real operators (every option) on planar lattices, box surfaces, generic lattice triangles, polylines and
         Kuhn tetrahedra; the returned sparse matrices are copied densely and every entry is projected to an exact rational.
Stage C  C08_Trace compares entrywise with the exact matrices; irrational operators are judged structurally.
"""
import math
import random
from fractions import Fraction

import numpy as np

from c07 import rat


def dense(M):
    A = np.asarray(M.todense())
    return A


def rows(A):
    return [[rat(x) for x in r] for r in np.real(A)]


def nnz(M):
    M = M.tocoo()
    return int(len(M.data))


# homogeneity degree of what is RECORDED for each operator (entries x size^degree); the specification checks this table (HomDeg)
def hom_degree(nm, opt):
    if nm == "adjacency_length":
        return 2                                   # recorded squared
    if nm in ("mass_vertices", "mass_edges", "mass_faces"):
        return -2 if "inverse" in opt else 2       # square roots are recorded squared
    if nm in ("mass_volume_vertices", "mass_volume_cells"):
        return -3 if "inverse" in opt else 3
    if nm == "gradient_flat":
        return -1
    return 0


def exec_case(case):
    import mouette as M
    import c09
    O = M.operators
    g = dict(case["given"])
    kind = "volume" if g.get("C0") else ("polyline" if g.get("E0") else "surface")
    k10 = g.setdefault("scale10", 0)             # the real mesh is the lattice mesh shrunk by 10^k: every operator is homogeneous in the size
    sc = 10.0 ** (-k10)
    m = c09.build({"kind": kind, "P": [[c * sc for c in p] for p in g["P"]] if k10 else g["P"], "F": g.get("F0", []), "C": g.get("C0", []), "E0": g.get("E0", [])})
    hist = g.setdefault("hist", "")
    if hist and kind == "surface":
        # history: the persistent per-element attributes the operators may reuse exist already ...
        tri = all(len(f) == 3 for f in m.faces)
        M.attributes.face_area(m)
        M.attributes.face_normals(m)
        if tri:
            M.attributes.corner_angles(m)
            M.attributes.cotangent(m)
        if hist == "moved":
            # ... and the mesh is moved afterwards (integer stretch along x, then a translation): the operators must describe the CURRENT geometry
            for i in range(len(m.vertices)):
                p = m.vertices[i]
                m.vertices[i] = M.geometry.Vec(3 * float(p[0]) + 1, float(p[1]) - 2, float(p[2]))
            g["P"] = [[3 * p[0] + 1, p[1] - 2, p[2]] for p in g["P"]]
    g["F"] = [[int(v) for v in f] for f in m.faces] if hasattr(m, "faces") else []
    g["E"] = [[int(a), int(b)] for a, b in m.edges]
    g["C"] = [[int(v) for v in c] for c in m.cells] if hasattr(m, "cells") else []
    events = []
    for ev in case["events"]:
        e = {"op": "operator", "name": ev["name"], "opt": ev.get("opt", ""), "exc": "", "M": [], "nnz": 0, "W": [], "rows": [], "asym": [],
             "g2": [], "g3": [], "a": [0, 0, 0], "ysign": 1}
        nm, opt = e["name"], e["opt"]
        e["deg"] = hom_degree(nm, opt)
        unscale = 10.0 ** (k10 * e["deg"])          # brings the entries of the shrunk mesh back to those of the lattice mesh
        try:
            if nm == "laplacian":
                e["M"] = rows(dense(O.laplacian(m, cotan=(opt == "cotan"))))
            elif nm == "graph_laplacian":
                e["M"] = rows(dense(O.graph_laplacian(m)))
            elif nm == "adjacency":
                if opt == "one":
                    A = O.adjacency_matrix(m, "one")
                else:
                    wr = random.Random(ev["wseed"])
                    w = [wr.randint(1, 5) for _ in g["E"]]
                    e["W"] = [[x, 1] for x in w]
                    A = O.adjacency_matrix(m, {i: x for i, x in enumerate(w)})
                e["nnz"], e["M"] = nnz(A), rows(dense(A))
            elif nm == "adjacency_length":
                A = O.adjacency_matrix(m, "length")
                e["nnz"], e["M"] = nnz(A), [[rat(x * x * unscale) for x in r] for r in dense(A)]
            elif nm == "vertex_to_edge":
                A = O.vertex_to_edge_operator(m, oriented=(opt == "oriented"))
                e["nnz"], e["M"] = nnz(A), rows(dense(A))
            elif nm == "vertex_to_face":
                A = O.vertex_to_face_operator(m)
                e["nnz"], e["M"] = nnz(A), rows(dense(A))
            elif nm in ("mass_vertices", "mass_edges", "mass_faces", "mass_volume_vertices", "mass_volume_cells"):
                kw = {}
                if "inverse" in opt:
                    kw["inverse"] = True
                if "sqrt" in opt:
                    kw["sqrt"] = True
                fn = {"mass_vertices": O.area_weight_matrix, "mass_edges": O.area_weight_matrix_edges, "mass_faces": O.area_weight_matrix_faces,
                      "mass_volume_vertices": O.volume_weight_matrix, "mass_volume_cells": O.volume_weight_matrix_cells}[nm]
                A = dense(fn(m, **kw))
                e["M"] = rows((A * A if "sqrt" in opt else A) * unscale)         # a square root is projected squared (exact surrogate); back to lattice size
            elif nm == "gradient_flat":
                conn = M.processing.FlatConnectionFaces(m)
                e["ysign"] = 1 if float(conn._baseY[1]) > 0 else -1
                G = dense(O.gradient(m, conn, as_complex=True)) * unscale
                e["M"] = [[[rat(z.real), rat(z.imag)] for z in r] for r in G]
            elif nm == "gradient_identity":
                conn = M.processing.SurfaceConnectionFaces(m)
                as_c = (opt == "complex")
                G = dense(O.gradient(m, conn, as_complex=as_c))
                area = M.attributes.face_area(m, persistent=False)
                a = np.array([area[i] for i in range(len(m.faces))])
                if as_c:
                    Mx = np.real(G.conj().T @ np.diag(a) @ G)
                else:
                    Mx = G.T @ np.diag(np.repeat(a, 2)) @ G
                e["M"] = rows(Mx)
                av = np.array(ev["a"], dtype=float)
                f = np.array([float(np.dot(av, np.asarray(p, dtype=float))) for p in m.vertices])
                gf = G @ f
                if as_c:
                    e["g2"] = [rat(abs(z) ** 2) for z in np.ravel(gf)]
                else:
                    gf = np.ravel(gf)
                    e["g2"] = [rat(gf[2 * i] ** 2 + gf[2 * i + 1] ** 2) for i in range(len(m.faces))]
                e["a"] = list(ev["a"])
                # the gradient as a vector of space, rebuilt from its coordinates in the library's own face bases
                g3 = []
                for i in range(len(m.faces)):
                    X, Y = (np.asarray(b, dtype=float) for b in conn.base(i))
                    gx, gy = (float(np.real(gf[i])), float(np.imag(gf[i]))) if as_c else (float(gf[2 * i]), float(gf[2 * i + 1]))
                    g3.append([rat(c) for c in gx * X + gy * Y])
                e["g3"] = g3
            elif nm == "laplacian_triangles":
                e["M"] = rows(dense(O.laplacian_triangles(m, cotan=(opt == "cotan"))))
            elif nm in ("volume_laplacian", "laplacian_tetrahedra", "laplacian_edges"):
                fn = {"volume_laplacian": O.volume_laplacian, "laplacian_tetrahedra": O.laplacian_tetrahedra, "laplacian_edges": O.laplacian_edges}[nm]
                A = dense(fn(m) if nm != "laplacian_edges" else fn(m, cotan=(opt == "cotan")))
                A = np.real(A)
                e["rows"] = [rat(x) for x in A.sum(axis=1)]
                e["asym"] = [rat(x) for x in np.ravel(A - A.T)]
            else:
                raise KeyError(nm)
        except KeyError:
            raise
        except Exception as ex:
            e["exc"] = type(ex).__name__ + ":" + str(ex)[:70]
        events.append(e)
    return {"id": case["id"], "given": g, "events": events}


SURF_OPS = [("laplacian", "cotan"), ("laplacian", "uniform"), ("graph_laplacian", ""), ("adjacency", "one"), ("adjacency", "custom"), ("adjacency_length", ""),
            ("vertex_to_edge", ""), ("vertex_to_edge", "oriented"), ("vertex_to_face", ""), ("mass_vertices", ""), ("mass_vertices", "inverse"),
            ("mass_vertices", "sqrt"), ("mass_vertices", "inverse_sqrt"), ("mass_edges", ""), ("mass_edges", "inverse"), ("mass_faces", ""),
            ("mass_faces", "inverse"), ("gradient_flat", ""), ("gradient_identity", "complex"), ("gradient_identity", "real"),
            ("laplacian_triangles", "cotan"), ("laplacian_triangles", "uniform"), ("laplacian_edges", "cotan"), ("laplacian_edges", "uniform")]
VOL_OPS = [("graph_laplacian", ""), ("adjacency", "one"), ("adjacency_length", ""), ("vertex_to_edge", "oriented"), ("mass_volume_vertices", ""),
           ("mass_volume_vertices", "inverse"), ("mass_volume_cells", ""), ("volume_laplacian", ""), ("laplacian_tetrahedra", "")]
LINE_OPS = [("graph_laplacian", ""), ("adjacency", "one"), ("adjacency", "custom"), ("adjacency_length", ""), ("vertex_to_edge", ""), ("vertex_to_edge", "oriented")]


def run(ctx):
    import c03
    import c09
    rng = random.Random(ctx.seed)
    thorough = ctx.tier == "thorough"
    ctx.model_check("C08_MC", "C08_MC.cfg", "stiffness symmetric / zero row sums, G*AG = L, affine gradient, mass sums on lattice triangulations")
    shapes = []
    for nu, nv_, sx, sy in [(3, 3, 1, 1), (3, 4, 3, 4), (4, 3, 2, 1), (2, 2, 1, 1)] + ([(5, 4, 1, 1), (4, 4, 3, 4), (6, 3, 1, 2), (4, 5, 5, 12), (3, 5, 2, 3)] if thorough else []):
        P, F = c09._grid_surface(nu, nv_, sx, sy, True)
        shapes.append(("P", P, F, [], []))
    cubeP = [[0, 0, 0], [2, 0, 0], [2, 2, 0], [0, 2, 0], [0, 0, 2], [2, 0, 2], [2, 2, 2], [0, 2, 2]]
    cubeT = [[0, 2, 1], [0, 3, 2], [0, 1, 5], [0, 5, 4], [1, 2, 6], [1, 6, 5], [2, 3, 7], [2, 7, 6], [3, 0, 4], [3, 4, 7], [4, 5, 6], [4, 6, 7]]
    shapes.append(("B-closed", cubeP, cubeT, [], []))
    shapes.append(("B-open", cubeP, cubeT[:10], [], []))
    shapes.append(("generic-tri", [[0, 0, 0], [3, 1, 0], [1, 2, 2], [4, 3, 1]], [[0, 1, 2], [1, 3, 2]], [], []))
    P, F = c09._grid_surface(3, 3, 1, 1, False)
    shapes.append(("P-quad", P, F, [], []))
    # sheared lattices: obtuse triangles (negative cotangents), still exactly rational
    P, F = c09._grid_surface(3, 3, 1, 1, True)
    shapes.append(("P-sheared", [[x + 2 * y, y, 0] for x, y, _ in P], F, [], []))
    P, F = c09._grid_surface(3, 4, 2, 1, True)
    shapes.append(("P-sheared", [[x - 3 * y, y, 0] for x, y, _ in P], F, [], []))
    for dims in ((1, 1, 1), (2, 1, 1)):
        Pk, Ck = c03.kuhn(rng, *dims)
        shapes.append(("K", Pk, [], Ck, []))
    shapes.append(("polyline", [[0, 0, 0], [3, 0, 0], [3, 4, 0], [0, 4, 0], [0, 4, 5]], [], [], [[0, 1], [1, 2], [2, 3], [3, 0], [3, 4]]))
    cases = []
    for name, P, F, C, E0 in shapes:
        ops = VOL_OPS if C else (LINE_OPS if E0 else SURF_OPS)
        evs = []
        for nm, opt in ops:
            evs.append({"name": nm, "opt": opt, "wseed": rng.randrange(10 ** 6), "a": [rng.randint(-2, 2) for _ in range(3)]})
        # renumbered copy: the operators do not depend on numbering
        for rep in range(6 if thorough else 2):
            perm = list(range(len(P)))
            if rep:
                rng.shuffle(perm)
            P2 = [None] * len(P)
            for old, new in enumerate(perm):
                P2[new] = P[old]
            if rep == 0 and (F or C):
                # the same shape 10^5 and 10^8 times smaller (faces of area ~1e-10 / ~1e-16)
                for k10 in (5, 8):
                    cases.append({"id": "%s-%d-tiny%d" % (name, len(cases), k10),
                                  "given": {"P": P2, "F0": [[perm[v] for v in f] for f in F], "C0": [[perm[v] for v in c] for c in C],
                                            "E0": [], "family": name, "hist": "", "scale10": k10}, "events": evs})
            for hist in (["", "warm", "moved"] if (F and rep == 0) else [""]):
                cases.append({"id": "%s-%d-%d%s" % (name, len(cases), rep, hist),
                              "given": {"P": P2, "F0": [[perm[v] for v in f] for f in F], "C0": [[perm[v] for v in c] for c in C],
                                        "E0": [[perm[v] for v in e_] for e_ in E0], "family": name, "hist": hist}, "events": evs})
    obs = ctx.execute("c08", "exec_case", cases, chunksize=1)
    ctx.judge("C08_Trace", "C08_Trace.cfg", obs, "operators-on-lattices", "c08", "exec_case", batch_events=30)
    ctx.exhaustive = False
    ctx.assumptions += [
        "entrywise exact comparison only where entries are rational (planar lattices, box surfaces); the volume Laplacian and the edge Laplacian are judged structurally (symmetry, zero row sums)",
        "the identity Re(G* A G) = L is evaluated on the library's own G and face areas (the product is formed in the harness, the comparison with the exact L is TLC's)",
        "connection Laplacians are judged under C18",
    ]
