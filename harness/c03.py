"""C03 - volume connectivity answers agree with the cell list.

Stage A  TetEnum: every conforming tetrahedral complex (<= 6 vertices, <= 3 / 4 cells, a triangle in at
         most two cells); C03_MC: lazy-cache state graph (NoSpuriousFailure), one history per transition.
Stage B  enumerated complexes (random generic lattice embedding, random numbering and cell vertex order,
         or all cells positively oriented), Kuhn subdivisions of small cube grids (random sub-selection),
         built through lists or numpy rows; every query kind with all arguments, in TLC's cache histories
         and random permutations; boundary connectivity and the standalone boundary extractor.
Stage C  C03_Trace judges every answer against TetCore.
"""
import itertools
import random

import numpy as np

CELL_Q = ["cell_to_face", "cell_to_cell", "cell_to_edge"]
FACE_Q = ["face_to_cells", "is_face_on_border"]
EDGE_Q = ["edge_to_cell", "edge_to_face", "is_edge_on_border"]
VERT_Q = ["vertex_to_cell", "is_vertex_on_border"]
PAIR_Q = ["other_face_side", "common_face", "in_cell_index", "in_cell_face_index"]
LIST_Q = ["boundary_faces", "interior_faces", "boundary_edges", "interior_edges", "boundary_vertices", "interior_vertices"]
BND_Q = ["boundary_connectivity", "extract_boundary"]
ALL_Q = CELL_Q + FACE_Q + EDGE_Q + VERT_Q + PAIR_Q + LIST_Q + BND_Q


def _n(x):
    if x is None:
        return -1
    if type(x).__name__ in ("bool", "bool_"):
        return 1 if x else 0
    return int(x)


def _l(xs):
    return [_n(x) for x in xs] if xs is not None else [-1]


def det(p, c):
    """the library's sign convention: det(A - D, B - D, C - D)"""
    a, b, c_, d = (np.array(p[i], dtype=np.int64) for i in c)
    return int(np.dot(a - d, np.cross(b - d, c_ - d)))


def query(m, op, g, rng):
    c = m.connectivity
    nc, nf, ne, nv = len(m.cells), len(m.faces), len(m.edges), len(m.vertices)
    if op in CELL_Q:
        args = list(range(nc))
        return args, [_l(getattr(c, op)(a)) for a in args], None
    if op == "face_to_cells":
        args = list(range(nf))
        return args, [_l(c.face_to_cells(a)) for a in args], None
    if op == "is_face_on_border":
        args = list(range(nf))
        return args, [_n(m.is_face_on_border(a)) for a in args], None
    if op in ("edge_to_cell", "edge_to_face"):
        args = list(range(ne))
        return args, [_l(getattr(c, op)(a)) for a in args], None
    if op == "is_edge_on_border":
        args = list(range(ne))
        return args, [_n(m.is_edge_on_border(a)) for a in args], None
    if op == "vertex_to_cell":
        args = list(range(nv))
        return args, [_l(c.vertex_to_cell(a)) for a in args], None
    if op == "is_vertex_on_border":
        args = list(range(nv))
        return args, [_n(m.is_vertex_on_border(a)) for a in args], None
    if op == "other_face_side":
        args = [[a, f] for a in range(nc) for f in range(nf)]
        args = args if len(args) <= 400 else rng.sample(args, 400)
        return args, [_n(c.other_face_side(a, f)) for a, f in args], None
    if op == "common_face":
        args = [[a, b] for a in range(nc) for b in range(nc) if a != b]
        args = args if len(args) <= 400 else rng.sample(args, 400)
        return args, [_n(c.common_face(a, b)) for a, b in args], None
    if op == "in_cell_index":
        args = [[a, v] for a in range(nc) for v in range(nv)]
        args = args if len(args) <= 400 else rng.sample(args, 400)
        return args, [_n(c.in_cell_index(a, v)) for a, v in args], None
    if op == "in_cell_face_index":
        args = [[a, f] for a in range(nc) for f in range(nf)]
        args = args if len(args) <= 400 else rng.sample(args, 400)
        return args, [_n(c.in_cell_face_index(a, f)) for a, f in args], None
    if op in LIST_Q:
        return [], _l(getattr(m, op)), None
    if op == "boundary_connectivity":
        m.enable_boundary_connectivity()
        bc = m.boundary_connectivity
        pairs = lambda d: [[int(k), int(v)] for k, v in sorted(d.items())]
        same = lambda sv, d: int(all(k in d and 0 <= d[k] < len(m.vertices) and bool(np.all(np.asarray(sv[k]) == np.asarray(m.vertices[d[k]]))) for k in range(len(sv))))
        b = {"F": [[int(v) for v in f] for f in bc.mesh.faces], "nv": len(bc.mesh.vertices), "E": [[int(a), int(b_)] for a, b_ in bc.mesh.edges],
             "b2mv": pairs(bc.b2m_vertex), "m2bv": pairs(bc.m2b_vertex), "b2mf": pairs(bc.b2m_face), "m2bf": pairs(bc.m2b_face),
             "b2me": pairs(bc.b2m_edge), "m2be": pairs(bc.m2b_edge), "posok": same(bc.mesh.vertices, bc.b2m_vertex)}
        return [], [], b
    if op == "extract_boundary":
        import mouette as M
        surf, m2b, b2m = M.processing.extract_boundary_of_volume(m)
        pairs = lambda d: [[int(k), int(v)] for k, v in sorted(d.items())]
        b = {"F": [[int(v) for v in f] for f in surf.faces], "nv": len(surf.vertices), "E": [[int(a), int(b_)] for a, b_ in surf.edges],
             "b2mv": pairs(b2m), "m2bv": pairs(m2b), "b2mf": [], "m2bf": [], "b2me": [], "m2be": [],
             "posok": int(all(k in b2m and bool(np.all(np.asarray(surf.vertices[k]) == np.asarray(m.vertices[b2m[k]]))) for k in range(len(surf.vertices))))}
        return [], [], b
    if op == "clear":
        c.clear()
        return [], [], None
    raise ValueError(op)


def build_volume(g):
    import mouette as M
    from mouette.geometry import Vec
    sc = 10.0 ** (-g.get("scale10", 0))          # the same complex at another size: the connectivity and the orientation do not depend on it
    P = [[c * sc for c in p] for p in g["P"]] if sc != 1.0 else g["P"]
    if g["container"] == "from_arrays":
        return M.mesh.from_arrays(np.array(P, dtype=float), C=np.array(g["C"]))
    data = M.mesh.RawMeshData()
    for p in P:
        data.vertices.append(Vec(float(p[0]), float(p[1]), float(p[2])))
    rows = [np.array(c) for c in g["C"]] if g["container"] == "numpy_row" else ([tuple(c) for c in g["C"]] if g["container"] == "tuple" else [list(c) for c in g["C"]])
    data.cells += rows
    return M.mesh.VolumeMesh(data)


def exec_case(case):
    import mouette as M
    g = dict(case["given"])
    rng = random.Random(hash(case["id"]) & 0xFFFFFF)
    old = M.config.sort_neighborhoods
    M.config.sort_neighborhoods = bool(g["sorted"])
    events = []
    try:
        try:
            m = build_volume(g)
        except Exception as ex:
            return {"id": case["id"], "given": dict(g, F=[], E=[], nv=len(g["P"])), "events": [{"op": "build", "args": [], "ret": [], "exc": type(ex).__name__}]}
        g["F"] = [[int(v) for v in f] for f in m.faces]
        g["E"] = [[int(a), int(b)] for a, b in m.edges]
        g["nv"] = len(m.vertices)
        g["family"] = g["family"] + "/" + ("numpy" if g["container"] in ("numpy_row", "from_arrays") else "lists")
        for ev in case["events"]:
            e = {"op": ev["op"], "args": [], "ret": [], "exc": ""}
            try:
                e["args"], e["ret"], b = query(m, ev["op"], g, random.Random(rng.random()))
                if b is not None:
                    e["b"] = b
            except Exception as ex:
                if ev["op"] not in ALL_Q and ev["op"] != "clear":
                    raise
                e["exc"] = type(ex).__name__ + ":" + str(ex)[:60]
            events.append(e)
    finally:
        M.config.sort_neighborhoods = old
    return {"id": case["id"], "given": g, "events": events}


def _coords(rng, nv, cells):
    for _ in range(200):
        pts = [[rng.randint(0, 5) for _ in range(3)] for _ in range(nv)]
        if len({tuple(p) for p in pts}) == nv and all(det(pts, c) != 0 for c in cells):
            return pts
    raise RuntimeError("no generic embedding found")


def kuhn(rng, kx, ky, kz, keep=1.0):
    idx = lambda i, j, k: (i * (ky + 1) + j) * (kz + 1) + k
    P = [[i, j, k] for i in range(kx + 1) for j in range(ky + 1) for k in range(kz + 1)]
    C = []
    for i, j, k in itertools.product(range(kx), range(ky), range(kz)):
        if rng.random() > keep:
            continue
        for perm in itertools.permutations(range(3)):
            cur = [i, j, k]
            tet = [idx(*cur)]
            for ax in perm:
                cur[ax] += 1
                tet.append(idx(*cur))
            C.append(tet)
    used = sorted({v for c in C for v in c})
    ren = {v: n for n, v in enumerate(used)}
    return [P[v] for v in used], [[ren[v] for v in c] for c in C]


def _variant(rng, P, C, positive):
    nv = len(P)
    perm = list(range(nv))
    rng.shuffle(perm)
    P2 = [None] * nv
    for old, new in enumerate(perm):
        P2[new] = P[old]
    C2 = []
    for c in C:
        d = [perm[v] for v in c]
        rng.shuffle(d)
        if positive and det(P2, d) < 0:
            d[0], d[1] = d[1], d[0]
        C2.append(d)
    rng.shuffle(C2)
    return P2, C2


def fans_connected(C):
    """Generator-side filter: around every edge the cells are linked through shared faces containing the edge."""
    cells = [frozenset(c) for c in C]
    edges = {frozenset(p) for c in C for p in itertools.combinations(c, 2)}
    for e in edges:
        cs = [i for i, c in enumerate(cells) if e <= c]
        seen, todo = {cs[0]}, [cs[0]]
        while todo:
            a = todo.pop()
            for b in cs:
                if b not in seen and len(cells[a] & cells[b]) == 3:
                    seen.add(b)
                    todo.append(b)
        if len(seen) != len(cs):
            return False
    return True


def _history(rng):
    qs = list(ALL_Q)
    rng.shuffle(qs)
    qs.insert(rng.randrange(len(qs)), "clear")
    return [{"op": q} for q in qs + rng.sample(ALL_Q, 4)]


def run(ctx):
    rng = random.Random(ctx.seed)
    thorough = ctx.tier == "thorough"
    r_enum = ctx.model_check("TetEnum", "TetEnum_thorough.cfg" if thorough else "TetEnum.cfg", "all conforming tetrahedral complexes within the bounds")
    r_mc = ctx.model_check("C03_MC", "C03_MC.cfg", "lazy-cache state graph of VolumeMesh: NoSpuriousFailure")
    if thorough:
        ctx.model_check("C03_MC", "C03_MC_asbuilt.cfg", "as-built (edge-to-face table never initialised) must fail", expect_violation="NoSpuriousFailure")
    enum = [x for x in r_enum.records if x.get("k") == "T"]
    hists = [x["h"] for x in r_mc.records if x.get("k") == "H" and x["h"]]
    cases = []
    conts = ["list", "numpy_row", "tuple", "from_arrays"]
    ctx.extra["enumerated_tet_complexes"] = len(enum)
    enum = [x for x in enum if fans_connected(x["C"])]
    ctx.extra["enumerated_with_connected_edge_fans"] = len(enum)
    i = 0
    for x in enum:
        C = [list(c) for c in x["C"]]
        for rep in range(3 if thorough else 2):
            P = _coords(rng, x["nv"], C)
            P2, C2 = _variant(rng, P, C, positive=(rep == 0))
            cases.append({"id": "T-%d" % i, "given": {"P": P2, "C": C2, "sorted": 0 if i % 5 == 4 else 1, "family": "T-enum", "container": conts[i % 4]},
                          "events": _history(rng)})
            i += 1
    kpool = []
    for dims, keep in (((1, 1, 1), 1.0), ((2, 1, 1), 1.0), ((2, 2, 1), 0.7), ((2, 2, 2), 0.6)) + ((((2, 2, 2), 0.8), ((3, 1, 1), 1.0), ((2, 2, 1), 1.0)) if thorough else ()):      # (a 3x2x2 grid - 72 cells - took TLC more than an hour per case)
        for rep in range(3 if thorough else 2):
            P, C = kuhn(rng, *dims, keep=keep)
            if C:
                kpool.append(_variant(rng, P, C, positive=(rep % 2 == 0)))
    # meshes with an interior vertex whose number is lower than some border vertex's: the volume -> boundary vertex map is not the identity
    cubeP = [[0, 0, 0], [2, 0, 0], [2, 2, 0], [0, 2, 0], [0, 0, 2], [2, 0, 2], [2, 2, 2], [0, 2, 2], [1, 1, 1]]
    cubeT = [[0, 2, 1], [0, 3, 2], [0, 1, 5], [0, 5, 4], [1, 2, 6], [1, 6, 5], [2, 3, 7], [2, 7, 6], [3, 0, 4], [3, 4, 7], [4, 5, 6], [4, 6, 7]]
    cubeC = [t + [8] for t in cubeT]
    for src in [(cubeP, cubeC)] + ([kuhn(rng, 2, 2, 2, keep=1.0)] if True else []):
        for rep in range(3 if thorough else 2):
            for _try in range(20):
                Pv, Cv = _variant(rng, src[0], src[1], positive=(rep == 0))
                used_on_border = set()
                cnt = {}
                for c in Cv:
                    for f in itertools.combinations(sorted(c), 3):
                        cnt[f] = cnt.get(f, 0) + 1
                for f, k in cnt.items():
                    if k == 1:
                        used_on_border.update(f)
                interior = [v for v in range(len(Pv)) if v not in used_on_border]
                if interior and min(interior) < max(used_on_border):
                    break
            kpool.append((Pv, Cv))
    # a tetrahedron refined by five interior vertices numbered BEFORE its four corners (border ids 5..8: a set of four integers does not iterate in order)
    E1, E2, E3, E4, E5, A_, B_, C_, D_ = range(9)
    Pn = [[12, 12, 12], [15, 15, 3], [15, 15, 15], [3, 15, 15], [15, 3, 15], [0, 0, 0], [48, 0, 0], [0, 48, 0], [0, 0, 48]]
    lvl1 = [([E1, B_, C_, D_], E3), ([A_, E1, C_, D_], E4), ([A_, B_, E1, D_], E5), ([A_, B_, C_, E1], E2)]
    Cn = [[x if i != k else pt for i, x in enumerate(c)] for c, pt in lvl1 for k in range(4)]
    kpool.append((Pn, Cn))
    for j, (P, C) in enumerate(kpool):
        cases.append({"id": "K-%d" % j, "given": {"P": P, "C": C, "sorted": 1, "family": "K", "container": conts[j % 4]}, "events": _history(rng)})
        if j % 3 == 0:       # the same complex a thousand times smaller (cells of volume ~1e-10)
            cases.append({"id": "K-%d-tiny" % j, "given": {"P": P, "C": C, "sorted": 1, "family": "K", "container": conts[j % 4], "scale10": 3}, "events": _history(rng)})
    small = [c for c in cases if len(c["given"]["C"]) <= 12]
    for i, h in enumerate(hists):
        base = small[i % len(small)]
        cases.append({"id": "cover-%d" % i, "given": dict(base["given"], family="cache-cover"), "events": [{"op": q} for q in h]})
    obs = ctx.execute("c03", "exec_case", cases, chunksize=16)
    for fam, pref in (("T-enum", "T-"), ("K", "K-"), ("cache-cover", "cover-")):
        # the Kuhn cases are large (up to 70 cells): one case per TLC run, so that the 16 validators share them evenly
        ctx.judge("C03_Trace", "C03_Trace.cfg", [c for c in obs if c["id"].startswith(pref)], fam, "c03", "exec_case", batch_events=30 if fam == "K" else 800)
    ctx.exhaustive = False
    ctx.assumptions += [
        "family T is exhaustive up to the TetEnum bounds; embeddings are random generic lattice points (cells may overlap geometrically: orientation tests are per cell)",
        "rings around an edge are accepted as rotations with at most one gap (border edge); with sorting off only membership is judged",
        "numbering of the boundary surface is free: only the index maps must be mutually inverse and consistent",
        "outwardness of the standalone extractor is demanded only when all cells are positively oriented",
    ]
