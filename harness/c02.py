"""C02 - mesh construction normalises raw data, whatever its form.

Stage A  C02_MC: every raw input of the bounded family (declared edges incl. self-loops, reversed,
         out-of-range; faces of arity 3-5; one or two tetrahedra, a hexahedron; sparse edge attribute;
         both completion switches): Build is well formed and building again changes nothing.
Stage B  each raw input is constructed through lists, tuples, numpy rows and from_arrays; every
         container and attribute of the finished mesh is recorded; the mesh is then built again from
         its own containers and recorded again; surfaces are additionally queried (C01).
Stage C  C02_Trace judges the recorded containers against Build / Rebuild; C01_Trace the queries.
"""
import random

import numpy as np

import c01

CONTAINERS = ["list", "tuple", "numpy_row", "from_arrays"]


def _rows(rows, kind):
    if kind == "tuple":
        return [tuple(r) for r in rows]
    if kind == "numpy_row":
        return [np.array(r) for r in rows]
    return [list(r) for r in rows]


def observe(m):
    def lst(name):
        return [[int(v) for v in x] for x in getattr(m, name)] if hasattr(m, name) else []
    o = {"cls": type(m).__name__, "nv": len(m.vertices),
         "v3d": 1 if all(type(v).__name__ == "Vec" and np.shape(v) == (3,) for v in m.vertices) else 0,
         "E": lst("edges"), "F": lst("faces"), "C": lst("cells"), "hard": [], "hard_entries": [], "att": [], "fc": [], "cc": [], "cf": []}
    if hasattr(m, "edges"):
        if m.edges.has_attribute("hard_edges"):
            h = m.edges.get_attribute("hard_edges")
            o["hard"] = [i for i in range(len(m.edges)) if bool(h[i])]
            # the library's own consumers (feature detection, the obj / medit writers) iterate over the ENTRIES of the flag, not over its values
            try:
                o["hard_entries"] = sorted(int(k) for k in h)
            except TypeError:
                o["hard_entries"] = list(o["hard"])
        if m.edges.has_attribute("tag"):
            a = m.edges.get_attribute("tag")
            o["att"] = [[i, int(a[i])] for i in range(len(m.edges)) if int(a[i]) != 0]

    def corners(c):
        el, ad = list(c._elem), list(c._adj)
        return [[int(el[i]), int(ad[i]) if i < len(ad) else -1] for i in range(len(el))]
    if hasattr(m, "face_corners"):
        o["fc"] = corners(m.face_corners)
    if hasattr(m, "cell_corners"):
        o["cc"] = corners(m.cell_corners)
        o["cf"] = corners(m.cell_faces)
    return o


def exec_case(case):
    import mouette as M
    from mouette.geometry import Vec
    g = case["given"]
    raw, kind = g["raw"], g["container"]
    oldE, oldF = M.config.complete_edges_from_faces, M.config.complete_faces_from_cells
    M.config.complete_edges_from_faces, M.config.complete_faces_from_cells = bool(raw["completeE"]), bool(raw["completeF"])
    events, extra = [], []
    try:
        m = None
        e = {"op": "build", "exc": "", "obs": {}}
        try:
            pts = [[float(i), float(i * i % 3), float(-i)] for i in range(raw["nv"])]
            if kind == "from_arrays":
                kw = {}
                if raw["E"]:
                    kw["E"] = np.array(raw["E"])
                if raw["F"]:
                    kw["F"] = np.array(raw["F"])
                if raw["C"]:
                    kw["C"] = np.array(raw["C"])
                m = M.mesh.from_arrays(np.array(pts), **kw)
            else:
                data = M.mesh.RawMeshData()
                data.vertices += _rows(pts, kind) if kind != "numpy_row" else [np.array(p) for p in pts]
                data.edges += _rows(raw["E"], kind)
                if raw["att"]:
                    a = data.edges.create_attribute("tag", int)
                    for i, v in raw["att"]:
                        a[i] = v
                data.faces += _rows(raw["F"], kind)
                data.cells += _rows(raw["C"], kind)
                if g.get("fail_first", 0):
                    # history: a first construction from this very data object RAISES (a malformed edge row); the caller repairs the data and builds again
                    data.edges.append((3, 1, 2))
                    try:
                        M.mesh.mesh._instanciate_raw_mesh_data(data)
                    except Exception:
                        pass
                    data.edges.clear()
                    data.edges += _rows(raw["E"], kind)
                    if raw["att"]:
                        a = data.edges.create_attribute("tag", int) if not data.edges.has_attribute("tag") else data.edges.get_attribute("tag")
                        for i, v in raw["att"]:
                            a[i] = v
                m = M.mesh.mesh._instanciate_raw_mesh_data(data)
            e["obs"] = observe(m)
        except Exception as ex:
            e["exc"] = type(ex).__name__ + ":" + str(ex)[:80]
        events.append(e)
        if m is not None:
            e2 = {"op": "rebuild", "exc": "", "obs": {}}
            try:
                m2 = type(m)(M.mesh.RawMeshData(m))
                e2["obs"] = observe(m2)
            except Exception as ex:
                e2["exc"] = type(ex).__name__ + ":" + str(ex)[:80]
            events.append(e2)
            if len(m.vertices) >= 2 and not e2["exc"]:
                # history: wrap the built mesh again, add one vertex and one face behind the existing records, build again
                e3 = {"op": "extend", "exc": "", "obs": {}, "newF": [0, 1, len(m.vertices)]}
                try:
                    data = M.mesh.RawMeshData(m)
                    data.vertices.append(Vec(9., 9., 9.))
                    data.faces.append(list(e3["newF"]))
                    m3 = M.mesh.mesh._instanciate_raw_mesh_data(data)
                    e3["obs"] = observe(m3)
                except Exception as ex:
                    e3["exc"] = type(ex).__name__ + ":" + str(ex)[:80]
                events.append(e3)
            if type(m).__name__ == "SurfaceMesh" and raw["completeE"]:
                rng = random.Random(len(case["id"]))
                kinds = rng.sample(c01.ALL_Q, 12)
                fam = "built-from-" + kind
                faces = [[int(v) for v in f] for f in m.faces]
                evs = []
                for op in kinds:
                    q = {"op": op, "args": [], "ret": [], "exc": ""}
                    try:
                        q["args"], q["ret"] = c01.query(m, op, len(m.vertices), faces, random.Random(rng.random()))
                    except Exception as ex:
                        q["exc"] = type(ex).__name__
                    evs.append(q)
                extra.append({"id": case["id"] + "/queries", "given": {"nv": len(m.vertices), "F": faces, "sorted": 1, "family": fam,
                                                                       "E": [[int(a), int(b)] for a, b in m.edges]}, "events": evs})
    finally:
        M.config.complete_edges_from_faces, M.config.complete_faces_from_cells = oldE, oldF
    return {"id": case["id"], "given": g, "events": events, "c01": extra}


def _applicable(raw, kind):
    if raw["C"] and not raw["completeF"]:
        return False                 # cell faces cannot be recorded when faces are not completed: outside the statement
    if kind == "from_arrays":
        if raw["att"]:
            return False             # from_arrays has no attribute argument
        if len({len(f) for f in raw["F"]}) > 1 or len({len(c) for c in raw["C"]}) > 1:
            return False             # a ragged array is not an array
        if any(max(e) >= raw["nv"] for e in raw["E"]):
            return False             # from_arrays rejects out-of-range indices up front (documented)
    return True


def _random_raw(rng):
    nv = rng.randint(3, 9)
    E = []
    seen = set()
    for _ in range(rng.randint(0, 5)):
        a, b = rng.randint(0, nv + 1), rng.randint(0, nv + 1)
        k = (min(a, b), max(a, b))
        if k not in seen:
            seen.add(k)
            E.append([a, b])
    F, fs = [], set()
    for _ in range(rng.randint(0, 4)):
        f = rng.sample(range(nv), rng.randint(3, min(5, nv)))
        if frozenset(f) not in fs:
            fs.add(frozenset(f))
            F.append(f)
    C = []
    if nv >= 5 and rng.random() < 0.5:
        base = rng.sample(range(nv), 5)
        C = [base[:4]] + ([base[1:5]] if rng.random() < 0.5 else [])
    att = [[i, rng.randint(1, 9)] for i in range(len(E)) if rng.random() < 0.5]
    return {"nv": nv, "E": E, "F": F, "C": C, "att": att, "completeE": rng.random() < 0.8, "completeF": True}


def run(ctx):
    rng = random.Random(ctx.seed)
    thorough = ctx.tier == "thorough"
    r = ctx.model_check("C02_MC", "C02_MC_thorough.cfg" if thorough else "C02_MC.cfg",
                        "Build well formed; building again changes nothing (all raw inputs of the family)")
    raws = [x["raw"] for x in r.records if x.get("k") == "R"]
    ctx.extra["raw_inputs_enumerated"] = len(raws)
    cap = 12000 if thorough else 2500
    if len(raws) > cap:
        raws = rng.sample(raws, cap)
    raws += [_random_raw(rng) for _ in range(2000 if thorough else 300)]
    cases = []
    for i, raw in enumerate(raws):
        kinds = CONTAINERS if (thorough or i % 4 == 0) else [CONTAINERS[i % 4], "list"]
        for kind in dict.fromkeys(kinds):
            if _applicable(raw, kind):
                cases.append({"id": "raw-%d-%s" % (i, kind), "given": {"raw": raw, "container": kind}, "events": []})
                if kind != "from_arrays" and i % 5 == 2:
                    cases.append({"id": "raw-%d-%s-after-a-failed-build" % (i, kind), "given": {"raw": raw, "container": kind, "fail_first": 1}, "events": []})
    obs = ctx.execute("c02", "exec_case", cases, chunksize=32)
    ctx.judge("C02_Trace", "C02_Trace.cfg", [{k: c[k] for k in ("id", "given", "events")} for c in obs], "raw-inputs-x-containers",
              "c02", "exec_case", batch_events=1200)
    ctx.judge("C01_Trace", "C01_Trace.cfg", [x for c in obs for x in c["c01"]], "queries-on-built-surfaces", batch_events=1500)
    ctx.exhaustive = False
    ctx.assumptions += [
        "declared edge lists contain no duplicate (in either orientation); face/cell indices are in range; only hard_edges is judged as an attribute created by construction",
        "cells with face completion switched off are outside the statement (cell faces cannot be recorded); from_arrays only for regular arities, without attributes, indices in range",
        "completed faces are compared up to rotation, completed edges as a set (their order is not part of the statement)",
        "volume queries on numpy-built meshes are judged under C03",
    ]
