"""./bin/check <property> quick|thorough      ./bin/check <property> --replay <file>"""
import importlib
import os
import sys
import traceback

sys.path.insert(0, os.path.dirname(os.path.abspath(__file__)))
os.environ.setdefault("PYTHONHASHSEED", "0")

from vf import core  # noqa: E402
from vf.tlc import MachineryError  # noqa: E402


def main(argv):
    if len(argv) < 2:
        print(__doc__)
        return 2
    prop = argv[0].upper()
    try:
        core.bind_repo()
        if argv[1] == "--replay":
            return core.replay(prop, argv[2])
        tier = os.environ.get("VERIF_TIER") if argv[1] == "env" else argv[1]
        if tier not in ("quick", "thorough"):
            print("unknown tier %r" % tier)
            return 2
        os.environ.setdefault("VERIF_CASE_TIMEOUT", "90" if tier == "quick" else "600")      # watchdog per executed case (vf/core.py)
        seed = int(os.environ.get("VERIF_SEED", "0") or 0)
        ctx = core.Ctx(prop, tier, seed)
        ctx.clean_replays()
        mod = importlib.import_module(prop.lower())
        mod.run(ctx)
        return ctx.finish()
    except MachineryError as e:
        print("MACHINERY-ERROR property=%s: %s" % (prop, e))
        return 2
    except Exception:
        print("MACHINERY-ERROR property=%s: unexpected exception\n%s" % (prop, traceback.format_exc()))
        return 2


if __name__ == "__main__":
    sys.exit(main(sys.argv[1:]))
