"""C07 - geometric quantities match their definitions, invariant under rigid motion.

Stage A  C07_MC: theorems about the definitions on lattice meshes x motions (scaling powers, invariance of
         angle / cotangent / defect surrogates, rotating normals, angle sum = pi, defects sum = 2 pi chi).
Stage B  every quantity function x every option (persistent or not, dense or sparse, weighting mode, zero_border)
         on planar lattice grids (axis, diagonal, 3-4-5), box surfaces (closed / open), Kuhn tetrahedra and their
         images under signed permutation matrices, integer scales, translations and renumbering; quantities are
         computed again and again after the mesh has been moved with mouette's own transform functions.
Stage C  C07_Trace compares exact surrogates (squares, (component^2, sign), (cos^2, sign), value / pi).
"""
import math
import random
from fractions import Fraction

import numpy as np

MATS = [[[1, 0, 0], [0, 1, 0], [0, 0, 1]], [[0, -1, 0], [1, 0, 0], [0, 0, 1]], [[0, 0, 1], [1, 0, 0], [0, 1, 0]],
        [[-1, 0, 0], [0, -1, 0], [0, 0, 1]], [[1, 0, 0], [0, 0, -1], [0, 1, 0]], [[0, 1, 0], [0, 0, 1], [1, 0, 0]]]


def rat(x, lim=20000):
    x = float(x)
    if not math.isfinite(x):
        return [0, 0]
    fr = Fraction(x).limit_denominator(lim)
    if abs(float(fr) - x) > 1e-9 * (1 + abs(x)):
        return [0, 0]
    return [fr.numerator, fr.denominator]


def sgn(x, eps=1e-9):
    return 1 if x > eps else (-1 if x < -eps else 0)


def unit(v):
    v = np.asarray(v, dtype=float)
    return {"sq": [rat(c * c) for c in v], "sg": [sgn(c) for c in v]}


def ang(t):
    return {"c2": rat(math.cos(t) ** 2), "sc": sgn(math.cos(t))}


def cot(c):
    return {"c2": rat(c * c), "sg": sgn(c)}


def vec(v):
    return [rat(c) for c in np.ravel(v)]


def _values(attr, n, proj):
    return [proj(attr[i]) for i in range(n)]


# homogeneity degree of each quantity in the size of the mesh (positions and lengths 1, areas 2, volumes 3, angles and directions 0);
# on a mesh shrunk by 10^k every value is multiplied by 10^(k * degree) before it is projected.  The specification checks this table (HomDeg).
DEGREE = {"edge_length": 1, "edge_middle_point": 1, "face_area": 2, "face_barycenter": 1, "face_circumcenter": 1, "cell_volume": 3, "cell_barycenter": 1,
          "barycenter": 1, "total_area": 2, "mean_face_area": 2, "mean_edge_length": 1, "mean_cell_volume": 3}


class _Scaled(object):
    """an attribute read through the factor that brings a shrunk mesh back to lattice size"""
    def __init__(self, attr, f):
        self.attr, self.f = attr, f

    def __getitem__(self, i):
        return np.asarray(self.attr[i], dtype=float) * self.f


def compute(m, name, mode, zb, persistent, dense, k10=0):
    import mouette as M
    A0 = M.attributes
    f_ = 10.0 ** (k10 * DEGREE.get(name, 0))

    class A(object):            # every attribute function, its result read through the factor
        def __getattr__(self, fn):
            real = getattr(A0, fn)

            def call(*a, **kw):
                r = real(*a, **kw)
                if f_ == 1.0:
                    return r
                if isinstance(r, (float, int, np.floating)):
                    return float(r) * f_
                if isinstance(r, np.ndarray):
                    return r * f_
                return _Scaled(r, f_)
            return call
    A = A()
    kw = dict(persistent=bool(persistent), dense=bool(dense))
    nE, nF, nV = len(m.edges), len(m.faces) if hasattr(m, "faces") else 0, len(m.vertices)
    nC = len(m.face_corners) if hasattr(m, "face_corners") else 0
    if name == "edge_length":
        return _values(A.edge_length(m, **kw), nE, lambda x: rat(float(x) ** 2))
    if name == "edge_middle_point":
        return _values(A.edge_middle_point(m, **kw), nE, vec)
    if name == "face_area":
        return _values(A.face_area(m, **kw), nF, lambda x: rat(float(x) ** 2))
    if name == "face_normals":
        return _values(A.face_normals(m, **kw), nF, unit)
    if name == "face_barycenter":
        return _values(A.face_barycenter(m, **kw), nF, vec)
    if name == "face_circumcenter":
        return _values(A.face_circumcenter(m, **kw), nF, vec)
    if name == "corner_angles":
        return _values(A.corner_angles(m, **kw), nC, lambda t: ang(float(t)))
    if name == "cotangent":
        return _values(A.cotangent(m, **kw), nC, lambda t: cot(float(t)))
    if name == "cotan_weights":
        return _values(A.cotan_weights(m, **kw), nE, rat)
    if name == "vertex_normals":
        return _values(A.vertex_normals(m, interpolation=mode, **kw), nV, unit)
    if name == "angle_defects":
        return _values(A.angle_defects(m, zero_border=bool(zb), **kw), nV, lambda x: rat(float(x) / math.pi, 64))
    if name == "degree":
        return _values(A.degree(m, **kw), nV, int)
    if name == "cell_volume":
        return _values(A.cell_volume(m, **kw), len(m.cells), rat)
    if name == "cell_barycenter":
        return _values(A.cell_barycenter(m, **kw), len(m.cells), vec)
    if name == "euler_characteristic":
        return [int(A.euler_characteristic(m))]
    if name == "barycenter":
        return [vec(A.barycenter(m))]
    if name == "total_area":
        return [rat(A.total_area(m))]
    if name == "mean_face_area":
        return [rat(A.mean_face_area(m))]
    if name == "mean_edge_length":
        return [rat(A.mean_edge_length(m))]
    if name == "mean_cell_volume":
        return [rat(A.mean_cell_volume(m))]
    # interpolation of a constant
    from mouette.mesh.mesh_attributes import Attribute, ArrayAttribute
    mk = lambda n: ArrayAttribute(float, n, default_value=3.5) if dense else Attribute(float, default_value=3.5)
    out = lambda n: ArrayAttribute(float, n) if dense else Attribute(float)
    if name == "interp_v2f":
        return _values(A.interpolate_vertices_to_faces(m, mk(nV), out(nF)), nF, rat)
    if name == "interp_f2v":
        return _values(A.interpolate_faces_to_vertices(m, mk(nF), out(nV), weight=mode), nV, rat)
    if name == "scatter_v2c":
        return _values(A.scatter_vertices_to_corners(m, mk(nV), out(nC)), nC, rat)
    if name == "avg_c2v":
        return _values(A.average_corners_to_vertices(m, mk(nC), out(nV), weight=mode), nV, rat)
    if name == "scatter_f2c":
        return _values(A.scatter_faces_to_corners(m, mk(nF), out(nC)), nC, rat)
    if name == "avg_c2f":
        return _values(A.average_corners_to_faces(m, mk(nC), out(nF), weight=mode), nF, rat)
    raise KeyError(name)


def exec_case(case):
    import mouette as M
    from mouette.geometry import Vec
    from mouette.geometry import transform as T
    import c09
    g = dict(case["given"])
    kind = "volume" if g.get("C0") else "surface"
    k10 = g.setdefault("scale10", 0)
    sc = 10.0 ** (-k10)
    m = c09.build({"kind": kind, "P": [[c * sc for c in p] for p in g["P"]] if k10 else g["P"], "F": g.get("F0", []), "C": g.get("C0", [])})
    g["F"] = [[int(v) for v in f] for f in m.faces] if hasattr(m, "faces") else []
    g["E"] = [[int(a), int(b)] for a, b in m.edges]
    g["C"] = [[int(v) for v in c] for c in m.cells] if hasattr(m, "cells") else []
    events = []
    for ev in case["events"]:
        e = dict(ev)
        e["exc"] = ""
        if ev["op"] == "transform":
            try:
                T.rotate(m, np.array(MATS[ev["mi"] - 1], dtype=float))
                T.scale(m, float(ev["s"]))
                T.translate(m, Vec(*[float(c) * sc for c in ev["t"]]))
            except Exception as ex:
                e["exc"] = type(ex).__name__ + ":" + str(ex)[:60]
        else:
            e.setdefault("mode", "")
            e.setdefault("zb", 0)
            e["vals"] = []
            e["n"] = 0
            e["deg"] = 0
            try:
                e["deg"] = DEGREE.get(ev["name"], 0)
                e["vals"] = compute(m, ev["name"], e["mode"], e["zb"], ev["persistent"], ev["dense"], k10)
                e["n"] = len(e["vals"])
            except KeyError:
                raise
            except Exception as ex:
                e["exc"] = type(ex).__name__ + ":" + str(ex)[:60]
        events.append(e)
    return {"id": case["id"], "given": g, "events": events}


SURF_Q = [("edge_length", [""]), ("edge_middle_point", [""]), ("face_area", [""]), ("face_normals", [""]), ("face_barycenter", [""]),
          ("face_circumcenter", [""]), ("corner_angles", [""]), ("cotangent", [""]), ("cotan_weights", [""]),
          ("vertex_normals", ["area", "uniform", "angle"]), ("angle_defects", [""]), ("degree", [""]), ("euler_characteristic", [""]),
          ("barycenter", [""]), ("total_area", [""]), ("mean_face_area", [""]), ("mean_edge_length", [""]),
          ("interp_v2f", [""]), ("interp_f2v", ["uniform", "area", "angle"]), ("scatter_v2c", [""]), ("avg_c2v", ["uniform", "angle"]),
          ("scatter_f2c", [""]), ("avg_c2f", ["uniform", "angle"])]
VOL_Q = [("cell_volume", [""]), ("cell_barycenter", [""]), ("mean_cell_volume", [""]), ("edge_length", [""]), ("degree", [""]), ("face_area", [""])]
TRI_ONLY = {"face_circumcenter", "cotangent", "cotan_weights", "angle_defects"}


def _history(rng, tri, volume, n, still=False):
    qs = VOL_Q if volume else [q for q in SURF_Q if tri or q[0] not in TRI_ONLY]
    evs = []
    doubles = 0
    for _ in range(n):
        r = rng.random()
        if r < 0.12 and not still:          # a third of the histories never move the mesh: whatever they store can never be stale
            sc = rng.choice([1, 1, 2]) if doubles < 2 else 1      # keep coordinates small: the specification searches integer square roots
            doubles += (sc == 2)
            evs.append({"op": "transform", "mi": rng.randint(1, 6), "s": sc, "t": [rng.randint(-2, 2) for _ in range(3)]})
        else:
            name, modes = rng.choice(qs)
            evs.append({"op": "quantity", "name": name, "mode": rng.choice(modes), "zb": rng.randint(0, 1),
                        "persistent": rng.randint(0, 1), "dense": rng.randint(0, 1)})
    return evs


def run(ctx):
    import c03
    import c09
    rng = random.Random(ctx.seed)
    thorough = ctx.tier == "thorough"
    ctx.model_check("C07_MC", "C07_MC.cfg", "scaling powers, invariance, rotating normals, angle sums, defect sum on 4 lattice meshes x 36 motions")
    shapes = []
    for nu, nv_, sx, sy, tri in [(3, 3, 1, 1, True), (3, 3, 1, 1, False), (3, 4, 3, 4, True), (4, 3, 2, 1, False), (2, 2, 1, 1, True), (4, 4, 1, 1, True)]:
        P, F = c09._grid_surface(nu, nv_, sx, sy, tri)
        shapes.append(("P-tri" if tri else "P-quad", P, F, []))
    cubeP = [[0, 0, 0], [2, 0, 0], [2, 2, 0], [0, 2, 0], [0, 0, 2], [2, 0, 2], [2, 2, 2], [0, 2, 2]]
    cubeT = [[0, 2, 1], [0, 3, 2], [0, 1, 5], [0, 5, 4], [1, 2, 6], [1, 6, 5], [2, 3, 7], [2, 7, 6], [3, 0, 4], [3, 4, 7], [4, 5, 6], [4, 6, 7]]
    shapes.append(("B-closed", cubeP, cubeT, []))
    shapes.append(("B-open", cubeP, cubeT[:10], []))
    shapes.append(("B-quads", cubeP, [[0, 3, 2, 1], [0, 1, 5, 4], [1, 2, 6, 5], [2, 3, 7, 6], [3, 0, 4, 7], [4, 5, 6, 7]], []))
    shapes.append(("generic-tri", [[0, 0, 0], [3, 1, 0], [1, 2, 2], [4, 3, 1]], [[0, 1, 2], [1, 3, 2]], []))
    cuboidP = [[x * (p[0] // 2), y * (p[1] // 2), z * (p[2] // 2)] for p in cubeP for (x, y, z) in [(1, 2, 3)]]
    shapes.append(("B-cuboid", cuboidP, cubeT, []))             # faces of three different areas: weighted sums really depend on the weights
    shapes.append(("B-cuboid-open", cuboidP, cubeT[:10], []))
    Psh, Fsh = c09._grid_surface(3, 3, 1, 1, True)
    shapes.append(("P-sheared", [[x + 2 * y, y, 0] for x, y, _ in Psh], Fsh, []))          # obtuse corners: negative cotangents
    for dims in ((1, 1, 1), (2, 1, 1)):
        Pk, Ck = c03.kuhn(rng, *dims)
        shapes.append(("K", Pk, [], Ck))
    cases = []
    reps = 24 if thorough else 6
    nev = 60 if thorough else 35
    for name, P, F, C in shapes:
        for rep in range(reps):
            # images under a motion and a renumbering: the definitions do not care
            M_ = MATS[rng.randrange(6)] if rep else MATS[0]
            s_ = rng.choice([1, 2]) if rep else 1
            t_ = [rng.randint(-2, 2) for _ in range(3)] if rep else [0, 0, 0]
            P2 = [[s_ * sum(M_[i][k] * p[k] for k in range(3)) + t_[i] for i in range(3)] for p in P]
            perm = list(range(len(P2)))
            if rep > 1:
                rng.shuffle(perm)
            P3 = [None] * len(P2)
            for old, new in enumerate(perm):
                P3[new] = P2[old]
            F2 = [[perm[v] for v in f] for f in F]
            C2 = [[perm[v] for v in c] for c in C]
            tri = bool(F2) and all(len(f) == 3 for f in F2)
            cases.append({"id": "%s-%d-%d" % (name, len(cases), rep), "given": {"P": P3, "F0": F2, "C0": C2, "family": name},
                          "events": _history(rng, tri, bool(C2), nev, still=(rep % 3 == 2))})
    # systematic histories without any move: every quantity twice in a row with its result stored on the mesh, then every quantity once more -
    # whatever a call leaves on the mesh must not change a later answer
    for name, P, F, C in shapes:
        tri = bool(F) and all(len(f) == 3 for f in F)
        qs = VOL_Q if C else [q for q in SURF_Q if tri or q[0] not in TRI_ONLY]
        evs = []
        for qn, modes in qs:
            for md in modes:
                evs += [{"op": "quantity", "name": qn, "mode": md, "zb": 0, "persistent": 1, "dense": 1}] * 2
        for qn, modes in qs:
            evs.append({"op": "quantity", "name": qn, "mode": modes[-1], "zb": 1, "persistent": 0, "dense": 0})
        cases.append({"id": "%s-%d-stored-twice" % (name, len(cases)), "given": {"P": P, "F0": F, "C0": C, "family": name}, "events": evs})
        # the same shape 10^5 times smaller (areas ~1e-10, volumes ~1e-15): every quantity once, a move, every quantity again
        once = [{"op": "quantity", "name": qn, "mode": md, "zb": 0, "persistent": 0, "dense": 1} for qn, modes in qs for md in modes]
        cases.append({"id": "%s-%d-tiny" % (name, len(cases)), "given": {"P": P, "F0": F, "C0": C, "family": name, "scale10": 5},
                      "events": once + [{"op": "transform", "mi": 2, "s": 1, "t": [1, -2, 1]}] + once})
    obs = ctx.execute("c07", "exec_case", cases, chunksize=2)
    ctx.judge("C07_Trace", "C07_Trace.cfg", obs, "quantities-on-lattices", "c07", "exec_case", batch_events=120)
    ctx.exhaustive = False
    ctx.assumptions += [
        "exact oracles exist only on integer lattice inputs (planar grids, box surfaces, Kuhn tetrahedra and their images under signed permutation matrices, integer scales, translations, renumbering); the code paths do not depend on coordinates being integral",
        "angle-weighted and uniformly weighted vertex normals only where face normals are coordinate axes and corner angles multiples of pi/4; cotangent weights / means only where they are rational",
        "general-angle rotations and round-off growth on large meshes are not decided; triangle_aspect_ratio and curvature quantities are not part of the statement's list",
    ]
