"""Regenerates /verif/MANIFEST.json from the table below (keeps the file schema-valid)."""
import json
import os

HERE = os.path.dirname(os.path.dirname(os.path.abspath(__file__)))

CHECKS = {}
NOT_APPLICABLE = {}


# families / histories added while the checks were tried against 158 seeded changes (DESIGN.md 10.5, 10.5b, 10.5c, 10.5d)
ADDED = {
    "C01": " Added: a third of the enumerated complexes are built with half of their sides declared as edges beforehand, shuffled and reversed.",
    "C02": " Added: a construction after a first one that raised on the same data object; history 'extend' (the built mesh wrapped again, one vertex and one face appended behind the existing records, built again); the ENTRY set of the hard-edge flag, which is what the library's own consumers iterate over.",
    "C03": " Added: a tetrahedron refined by five interior vertices numbered before its corners and the clause that boundary vertices keep the positions of their volume vertices; meshes with an interior vertex numbered below border vertices (cube around its centre, full 2x2x2 Kuhn grid) and the same complexes a thousand times smaller.",
    "C04": " Added: the two configuration switches that change a format's edge vocabulary (complete_edges_from_faces, export_edges_in_obj); loading a file that an independent writer put at a path mouette had saved to and loaded from before.",
    "C05": " Added: a value read from one entry written to another (then the first updated in place); values equal to the default of a non-castable type.",
    "C06": " Added: normalisation of a mesh first shrunk by 3e-9.",
    "C08": " The scale family goes down to 10^-8.",
    "C11": " Added: integer radii with points exactly on the sphere (tangent to splitting planes).",
    "C09": " A watchdog (time and memory) turns a call that does not return into a rejection.",
    "C10": " Added: the forest's edge list read twice and the trees' own lists afterwards; traversals of the same tree object abandoned half way before the judged ones.",
    "C12": " Added: padding arrays with negative entries, integer-typed vectors; both normalisation modes of roots() asked for in a row.",
    "C13": " Added: the stand-alone ear splitter; the face type asked for before the block and on the input afterwards; a cell split followed by a face split in one block (open finding).",
    "C14": " Added: every generator called twice with the first result overwritten in place; cube corners; float-step-sensitive torus resolutions; nearly (not exactly) vertical cylinders; the realised angle defect of the rings.",
    "C15": " Added: the same detector object run twice, or first on a differently folded copy of the mesh.",
    "C16": " Added: every other cut of a case on the SAME mesh object; an icosphere stretched along z.",
    "C17": " Added: a 41-vertex disk whose border ids iterate out of order, the circle's positions handed back as a custom boundary (rows honoured); the same mesh object embedded first with the other weights; interior edges of cotangent weight exactly zero are classed separately (open finding).",
    "C18": " Added: the same solver object first run with smoothing, then re-optimised with the option changed; the exact extension is computed for at most 8 free faces (32-bit integers).",
    "C19": " Added: every value returned by evaluate() overwritten by the caller before the judged evaluation; nets of degree 0 in either direction, parameters outside [0,1] by 1e-9, samples' normals after stored face normals and a quarter turn.",
}


def check(pid, text, note, technique, design_ref):
    text = text + ADDED.get(pid, "")
    CHECKS[pid] = {
        "property_id": pid,
        "quick_cmd": "./bin/check %s quick" % pid,
        "thorough_cmd": "./bin/check %s thorough" % pid,
        "evidence_file": "/verif/evidence/%s.json" % pid,
        "replay_cmd_template": "./bin/check %s --replay {path}" % pid,
        "engine": "tlc-trace",
        "level_claimed": {"category": "model_checking", "text": text, "design_ref": design_ref},
        "level_note": note,
        "technique": technique,
    }


check("C20",
      "TLC checks on bounded instances (3-4 elements, depth 5; 4-5 queue items, depth 7-9) that the union-find forest "
      "refines the abstract partition (counters, sizes at roots, queries are stutters) and that the heapq array refines "
      "'hand out a pending minimum'; every transition of those models is replayed on the real objects (elements as ints, "
      "tuples, strings, mixed) and every recorded call plus a projection taken after it (contains, counts, connected "
      "matrix) is validated by TLC against the specification, as are random long histories.",
      "Small-scope: exhaustive only within the model bounds; beyond them random histories (<= 9 elements, <= 80 calls). "
      "roots() is accepted under either reading (elements or positions). Trusted: TLC, the JSON projection in harness/c20.py.",
      "TLA+ spec (C20_UF, C20_PQ) model-checked with TLC; transition-cover replay into the real classes; TLC trace validation (C20_Trace)",
      "DESIGN.md 6.20")

check("C05",
      "TLC checks an implementation-shaped model of both storages (dict + one default object; numpy rows + n_elem) "
      "against the abstract total map: last-write-or-default, alignment after every growth, sparse/dense agreement, "
      "out-of-bounds for every index outside 0..size-1 and no cross-entry aliasing, for 5 type/arity configurations, "
      "container size <= 3 and all histories of depth 4 (quick) / 5 (thorough); the three deviations found in mouette "
      "are switchable (AsBuilt) and each yields a counterexample. Every transition of the model is replayed on a real "
      "DataContainer with one sparse and one dense attribute in lock-step; TLC validates each call's acceptance/rejection "
      "and the full read-back of both attributes after every step; random histories of 20-60 calls are added.",
      "Small-scope bounds as stated; values compared by Python equality; sparse writes only at in-range indices; after "
      "an in-place update the updated entry itself is unconstrained. Trusted: TLC, the atom normal form in harness/c05.py.",
      "TLA+ spec (C05_Attributes, C05_MC) model-checked with TLC; transition-cover replay into DataContainer/Attribute/ArrayAttribute; TLC trace validation (C05_Trace)",
      "DESIGN.md 6.5")

check("C01",
      "TLC enumerates every oriented manifold polygon complex with <= 5 vertices and <= 4 (quick) / 5 (thorough) faces of "
      "arity 3-4 (checking the oracle's own identities on each) and explores the lazy-cache state graph of SurfaceMesh "
      "(48 cache states x 47 query kinds; NoSpuriousFailure). Each complex (randomly renumbered, rotated, shuffled; "
      "neighbourhood sorting on and off), library shapes and mutilated variants are built as real SurfaceMesh objects; "
      "every query kind is issued with all of its arguments along every transition of the cache graph (first query on a "
      "fresh mesh, after clear, after clear_boundary_data) and in random permutations; TLC judges every answer against "
      "MeshCore (half-edge map from the face list), rings as rotations in one consistent direction.",
      "Exhaustive only within the enumeration bounds; larger inputs are library shapes up to ~100 faces. Non-manifold or "
      "non-oriented inputs are skipped (outside the quantifier). Trusted: TLC, MeshCore.tla (self-checked by MeshEnum's identities), JSON projection in harness/c01.py.",
      "TLA+ oracle (MeshCore) + cache-state model (C01_MC) + exhaustive input enumeration (MeshEnum) with TLC; replay into SurfaceMesh; TLC trace validation (C01_Trace)",
      "DESIGN.md 6.1")

check("C06",
      "TLC checks that a heap model of meshes (every vertex a reference to a coordinate buffer; producers that store one "
      "buffer under two ids; deepcopy; merge; in-place or rebinding transforms; in-place and rebinding edits) refines the "
      "pure value semantics of C06_Values for <= 3 live meshes and all histories of depth 4/5; the as-built deviations "
      "(merge shares arrays, translate adds in place) each give a counterexample. Every transition of the model (sampled "
      "to 6 000 / 60 000 histories) and random histories over 23 real producers (generators, loaders, from_arrays, "
      "subdivision, boundary extraction, merge, copy) are executed on real meshes; after every call the exact rational "
      "coordinates of ALL live meshes are validated by TLC against the abstract state, incl. index shifts of merge and "
      "the documented bounding box after normalize.",
      "Coordinates are lattice points (written in place after production, which preserves the producer's sharing); "
      "rotations are quarter turns and one 3-4-5 turn, scales 2 and 1/2; general-angle rotations are not decided. Meshes "
      "whose coordinates stop being exactly representable are not judged further.",
      "TLA+ heap-refines-values model (C06_MC, C06_Values) checked with TLC; transition-cover replay on real meshes; TLC trace validation (C06_Trace)",
      "DESIGN.md 6.6")

check("C12",
      "TLC checks (a) the box laws of the statement on the specification's own definitions for every pair of integer boxes "
      "and every point with coordinates 0..2 in dimension 1-2 (59 292 combinations), and the rotation laws (isometry, axis "
      "fixed, inverse, additivity) on the exact rotation table; (b) an effect-system model (arrays and boxes as references "
      "to buffers, numpy's error configuration as a global, a write set per call) with the two as-built deviations "
      "switchable. Every transition of the effects model and random sequences over 70 API calls (incl. degenerate arguments "
      "that raise) run on real objects with content digests of ALL tracked arrays, boxes and meshes and np.geterr() recorded "
      "before/after every call; ~30 primitives are evaluated on exhaustive/sampled lattice arguments and TLC compares the "
      "results with exact rational values (lengths squared, angles via cos^2 and sign).",
      "Lattice inputs only (exactness); general-angle rotations and aspect_ratio round-off not decided; angles exactly at "
      "+-pi not judged; circumcentre judged for equidistance here (its full definition under C07).",
      "TLA+ exact algebra (C12_Primitives, Rotations) + effect-system model (C12_Effects_MC) checked with TLC; replay and TLC trace validation (C12_Trace) of results and before/after digests",
      "DESIGN.md 6.12")

check("C13",
      "TLC checks the editing block of SurfaceSubdivision as a state machine over shared containers (InputIntact: the "
      "object passed in is unchanged or equal to the result, never half-updated; ResultValid) and enumerates every oriented "
      "manifold complex with <= 5 vertices / <= 3 faces of arity 3-5. Every transition of the block model (with/without "
      "connectivity queried before; sequences of up to 3 operations) and random blocks run on real meshes (enumerated "
      "complexes with random lattice embeddings, planar lattice grids, library shapes); after EVERY operation TLC checks the "
      "editor's (V, F): documented counts (n-fold), oriented manifold, same Euler characteristic / border loops / components, "
      "same exact vector area, old vertices in place, new vertices at edge midpoints / face barycentres (exact rationals); at "
      "exit: result = what was built, edges = sides of faces, input-object clause; all C01 connectivity answers of the result "
      "object and of the input object afterwards are judged by C01_Trace. Polylines: split_edge on every edge.",
      "Inputs where two faces share two edges or a polygon chord is already an edge are skipped (the refinement is not "
      "expressible with index pairs). Area through the exact vector-area functional. Volume operations (split_cell_as_fan, "
      "split_tet_from_face_center) are judged in the volume part of this check (TetCore).",
      "TLA+ editing-block model (C13_MC) + refinement clauses (C13_Subdivision over MeshCore/Rat) checked with TLC; replay on real meshes; TLC trace validation (C13_Trace, C01_Trace)",
      "DESIGN.md 6.13")

check("C02",
      "TLC evaluates Build(raw) - written from the statement - on every raw input of a bounded family (6 600 quick / 53 560 "
      "thorough: declared edges incl. self-loops, reversed and out-of-range pairs; faces of arity 3-5; one or two tetrahedra, "
      "a hexahedron; sparse edge attribute; both completion switches) and checks that the result is well formed and that "
      "building again changes nothing. Each raw input (sampled) plus random larger ones is constructed in the real library "
      "through lists, tuples, numpy rows and from_arrays; every container, corner record (element and owner), hard flag, "
      "attribute value and the class of the finished mesh are validated by TLC against Build, and again after building a "
      "second time from the built mesh; surfaces built from each container type are also queried and judged by C01_Trace.",
      "Declared edge lists without duplicates; cells only with face completion on; from_arrays only for regular arities. "
      "Completed edges compared as a set, completed faces up to rotation. Construction from files is judged under C04; volume queries under C03.",
      "TLA+ Build/Rebuild functions (C02_Build) checked with TLC over an exhaustive raw-input family; replay through 4 container types; TLC trace validation (C02_Trace, C01_Trace)",
      "DESIGN.md 6.2")

check("C03",
      "TLC enumerates every conforming tetrahedral complex on <= 6 vertices with <= 3 (quick) / 4 (thorough) cells and explores "
      "the lazy-cache state graph of VolumeMesh (100 cache states x 24 query kinds; NoSpuriousFailure; the as-built table fails). "
      "Each complex (random generic lattice embedding, random numbering and cell vertex order, or all cells positively oriented), "
      "Kuhn subdivisions of cube grids with random sub-selection, built from lists / tuples / numpy rows / from_arrays, is queried "
      "with every argument of every kind along every transition of the cache graph and in random permutations (sorting on/off); "
      "TLC judges every answer against TetCore: face-cell incidence, i-th face opposite i-th vertex, cell adjacency, rotational "
      "rings around edges, border classification, and for boundary_connectivity / extract_boundary_of_volume: exactly the border "
      "faces, closed, outward by the integer determinant, index maps mutually inverse and consistent.",
      "Complexes whose cells around some edge are not linked through faces (tetrahedra touching along an edge only) are outside "
      "'rotational order' and skipped. 'Positively oriented' is the library's convention det(A-D,B-D,C-D) > 0. Embeddings may overlap "
      "geometrically (orientation is judged per cell). Trusted: TLC, TetCore.tla.",
      "TLA+ oracle (TetCore) + cache-state model (C03_MC) + exhaustive enumeration (TetEnum) with TLC; replay into VolumeMesh; TLC trace validation (C03_Trace)",
      "DESIGN.md 6.3")

check("C09",
      "TLC checks the Dijkstra-with-lazy-deletion machine (one step = pop a minimum entry, skip if settled, else relax and push "
      "every unsettled neighbour) on EVERY graph with 3 nodes (weights 0..2) and 4 nodes (weights 0..1; 0..2 in thorough), every "
      "start and every tie-break: termination (liveness under weak fairness), dist = Bellman-Ford distances, settled vertices "
      "final, back-tracked paths shortest. The real functions run on polylines (all graphs on <= 4 vertices), enumerated "
      "surfaces, integer-length lattices (axis and 3-4-5 grids) and Kuhn volumes for every weight mode (unit, Euclidean, dict, "
      "Attribute), single / list / set targets, start inside the set, the border; the library's PriorityQueue is wrapped in the "
      "harness process and TLC validates (a) every returned path as a minimum-weight edge path, (b) nearest member for sets / "
      "border, (c) that the recorded push/pop sequence is a behaviour of the Dijkstra machine.",
      "Non-negative integer weights only (Euclidean mode on lattices with integer edge lengths). Unreachable targets are skipped. "
      "Any optimal path is accepted. The optional path polyline is not judged.",
      "TLA+ Dijkstra state machine (C09_Paths, C09_MC) model-checked incl. liveness; TLC trace validation of results and of the real priority-queue traffic (C09_Trace)",
      "DESIGN.md 6.9")

check("C10",
      "TLC runs the breadth-first tree builder (queue of (parent, child) pairs) and Kruskal (every order of equal weights) as state "
      "machines on EVERY graph with 4 nodes, every root, weights 1..2: reached = Reach(root), |edges| = |reached|-1, depth = hop "
      "distance, Kruskal's edge set is an acyclic spanning forest of minimum weight. The real EdgeSpanningTree, "
      "EdgeMinimalSpanningTree, Face/CellSpanningTree and the three forests run on polylines (graphs on <= 5 vertices), enumerated "
      "surfaces, lattices, library shapes and Kuhn volumes with all roots, random exclusion sets, border avoidance, all weight modes; "
      "TLC rebuilds the admissible graph from the element lists (MeshCore / TetCore) and judges parent / children / edges / BFS and "
      "DFS traversals / roots / trees relationally.",
      "Any minimum forest and any breadth-first tree is accepted. Weights are positive integers or integer lattice lengths. Exclusion sets are sampled.",
      "TLA+ BFS and Kruskal machines (C10_MC) model-checked over all 4-node graphs; TLC trace validation against Graph/MeshCore/TetCore (C10_Trace)",
      "DESIGN.md 6.10")

check("C11",
      "TLC checks the k-d tree build machine for EVERY point sequence of {0,2,4}^d (4-5 points in 1-D, 3-4 in 2-D) and every admissible "
      "pivot choice: termination (liveness under weak fairness and the split-count variant), leaves partition the points and respect "
      "their boxes; and the k-nearest search transcribed as a function, for every tree, every query of {-1,1,3,5}^d and every k <= n+1: "
      "exactly min(k, n) nearest. Both as-built rules (split '<= pivot', prune before k candidates) yield counterexamples. Every emitted "
      "build behaviour is replayed into the real KDTree with its pivots injected through a harness-side wrapper of _find_pivot (which "
      "also enforces the split bound, so non-termination is observed deterministically); random clustered / collinear / duplicated / "
      "constant-axis point sets up to 60 points in dimension 1-4 run with the three real strategies; TLC judges leaf partition, split "
      "consistency, k-nearest (distinct, ordered, k smallest) and radius answers.",
      "Integer points with even coordinates; radii never on a point; any k nearest with the right distances accepted.",
      "TLA+ build machine with liveness (C11_MC) and search function (C11_KNN_MC) model-checked; pivot-injected replay; TLC trace validation (C11_Trace)",
      "DESIGN.md 6.11")

check("C15",
      "TLC runs the library's border walk (first border neighbour, in rotational order, that is not the vertex just left) from every "
      "border vertex of every enumerated oriented manifold complex (<= 5 vertices, <= 4 faces) and checks it returns exactly the border "
      "loop of its start; with unsorted neighbourhoods the model fails (documented reliance on sorting). The real "
      "extract_border_cycle(_all) / extract_boundary_of_surface run on enumerated complexes, library shapes with several loops and "
      "components and a disk with chords, from every start; FeatureEdgeDetector runs on lattice roof strips whose dihedral lies on either "
      "side of both thresholds (with and without declared hard edges) and random lattice triangle surfaces, for all options; TLC judges "
      "cycles via MeshCore and the feature set by integer dihedral tests, plus feature vertices, degrees, local indices and corner orders.",
      "Sorting on (default). Feature tests on lattice triangle meshes; exact-threshold and degenerate cases skipped; corner orders judged "
      "only for angle sums that are exact multiples of pi/4 off rounding ties. Map direction of the border polyline free.",
      "TLA+ border-walk function checked with TLC over MeshEnum (C15_MC); TLC trace validation with integer dihedral arithmetic (C15_Trace)",
      "DESIGN.md 6.15")

check("C16",
      "TLC checks the design of the cutting algorithm independently of edge weights: on the tetrahedron, a 4-triangle disk, a "
      "6-triangle annulus and (thorough) the octahedron, for every singularity set, every forest linking it to the border and "
      "EVERY dual spanning tree avoiding that forest, complement + pruning + re-gluing yields an oriented manifold disk with every "
      "singular vertex on its border and a connected cut graph containing the border (documented design gap: a one-edge cut graph "
      "on a closed surface). The real SingularityCutter runs on the same surfaces for all singularity sets and on lattice disks, "
      "cylinders, tori and library shapes up to ~120 faces for many sets, with and without a FeatureEdgeDetector; its singularity "
      "tree and dual tree are recorded by wrapping the two builder methods; TLC re-glues the input along the REPORTED cut edges and "
      "validates: same faces / corner positions, ref_vertex onto and face-wise consistent, exactly the reported edges opened, "
      "dual tree spanning and avoiding the singularity tree, cut = pruned complement, disk, singular vertices on the border, cut graph connected.",
      "Connected oriented manifold triangulations with distinct integer positions. Two open known findings (single-edge cut on a closed "
      "surface; feature mode enclosing faces).",
      "TLA+ design model over all dual spanning trees (C16_MC, C16_Cutting) checked with TLC; TLC trace validation of the real cutter's trees and output (C16_Trace)",
      "DESIGN.md 6.16")

check("C14",
      "TLC checks that the table of promised counts / topology (C14_Procedural) agrees with reference index arithmetic for grids, tori "
      "and cylinders for every resolution pair 3..5 x 3..5 and both switches (valid oriented manifold, Euler characteristic, border loops). "
      "Every generator (tetrahedron, hexahedron, cube, hexahedron_4pts, octahedron, icosahedron, dodecahedron, cylinder, torus, sphere_uv, "
      "icosphere, sphere_fibonacci, triangle, quad, unit_grid, unit_triangle, ring, flat_ring, dual_mesh, spherify_vertices, cylindrify_edges, "
      "chain_of_vertices, vector_field) runs over a parameter grid with unequal and minimal resolutions, radii 1/2, 1, 3, centres off the origin "
      "and all switches; TLC judges each output with MeshCore: indices in range, no unused vertex, no repeated face, consistently oriented "
      "manifold, counts, arity, components / Euler characteristic / border loops of the named shape, class and cell for the volume switch, "
      "colour attribute, requested corners (exact), unit square, and one exact rational measure per vertex for the named surface (squared "
      "distance to centre / axis / torus circle).",
      "The angle defect realised at the centre of ring() / flat_ring() is measured by the driver in floating point and must be within 2 micro-radians of the "
      "(clamped) request (the bisection stops at 1e-6); requests 0 .. 7 including the clamp window. icosahedron-like shapes only equidistant from the centre. "
      "cylindrify_edges on unit-length polylines; unit_triangle with equal resolutions; face lists of volume outputs are not judged as surfaces.",
      "TLA+ promise table + reference index arithmetic (C14_Procedural, C14_MC) checked with TLC; TLC trace validation of every generator output with MeshCore (C14_Trace)",
      "DESIGN.md 6.14")

check("C04",
      "TLC checks that an independent reference codec written in TLA+ from the format descriptions (readers and writers for obj, "
      "medit .mesh, geogram_ascii, off, tet, xyz over uninterpreted token lines) is lossless within each format's vocabulary on a "
      "family of meshes (point cloud, polyline, triangles, quad, mixed, pentagon, one / two tetrahedra, hexahedron) and emits files. "
      "Three bindings, all judged by TLC: (i) files written by mouette are split into tokens without interpretation (each float literal "
      "becomes the id of its float64 bit pattern) and read by the reference reader - must equal Project_f(mesh); (ii) files written by "
      "the reference writer are loaded by mouette; (iii) mouette loads what it saved - containers must equal Build(Project_f(mesh)), "
      "class by content, declared edges stay the hard edges, geogram attributes (bool/int/float, arity 1-3, vertices/edges/faces/cells) "
      "come back with name, type, arity, values. Coordinates come from a pool with negative, tiny (5e-324), huge (1e300) and 17-digit "
      "values; binary STL is unpacked into float32 bit patterns per triangle corner.",
      "Float formatting/parsing is Python's own, observed through bit patterns only. Completed edges are outside the obj/medit vocabulary; "
      "medit element order is compared per kind. One open known finding (.off quads/polygons). .ply is not writable.",
      "TLA+ reference codec (C04_Codec) model-checked for losslessness; TLC trace validation of token-level files and loaded containers (C04_Trace, C02_Build)",
      "DESIGN.md 6.4")

check("C07",
      "TLC checks theorems about the exact definitions (C07_Quantities over integers and gcd-normalised rationals) on four lattice meshes "
      "x 36 motions: squared lengths scale with s^2, squared areas with s^4, volumes with s^3; angle / cotangent / defect surrogates are "
      "invariant, unit normals rotate with the mesh, corner angles of lattice triangles sum to pi, angle defects sum to 2 pi chi. The real "
      "functions (edge length / midpoint, face area / normal / barycentre / circumcentre, corner angle, cotangent, cotangent weight, vertex "
      "normals x 3 weightings, angle defect x zero_border, degree, cell volume / barycentre, Euler characteristic, barycentre, total / mean "
      "area, mean edge length, mean cell volume, six interpolation operators on a constant) run with every persistent / dense combination on "
      "planar lattice grids (axis, diagonal, 3-4-5), box surfaces, a generic lattice triangle pair and Kuhn tetrahedra, on images under signed "
      "permutation matrices, scales, translations and renumbering, repeatedly and after the mesh has been moved by geometry.transform; TLC "
      "compares exact surrogates (squares, (component^2, sign), (cos^2, sign), value/pi) with the definitions on the CURRENT geometry. Added during "
      "the build: sheared (obtuse) lattices and a 1x2x3 cuboid, histories that never move the mesh, systematic stored-twice histories (every "
      "quantity twice with its result stored, then every quantity again) and every shape shrunk by 10^5 with the homogeneity degree of each quantity "
      "stated in the specification (HomDeg).",
      "Exact oracles only on integer lattice inputs; weightings that need irrational mixes are judged only where normals are coordinate axes "
      "and angles multiples of pi/4. Four open known findings (stale cached attributes after a transform).",
      "TLA+ exact definitions (C07_Quantities) with invariance theorems model-checked (C07_MC); TLC trace validation of exact surrogates (C07_Trace)",
      "DESIGN.md 6.7")

check("C08",
      "TLC checks on planar lattice triangulations (C08_MC) that the exact stiffness matrix is symmetric with zero row sums, that "
      "Re(G* A G) equals it entry for entry (exact rationals), that the gradient of an affine function is its constant gradient in every "
      "face, that vertex / edge / face masses are positive and sum to 3x / 1x / 1x the area, and that the graph and dual Laplacians are "
      "symmetric with zero row sums. The real operators run with every option on planar lattices, box surfaces, a generic lattice triangle "
      "pair, quad grids, polylines and Kuhn tetrahedra (and renumbered copies): laplacian (cotan / uniform), graph_laplacian, adjacency (unit / "
      "length / custom) with the stored-entry count, vertex-edge (oriented or not) and vertex-face incidence, five mass matrices x inverse / "
      "sqrt, flat gradient entries, Re(G* A G) and |G f|^2 for the library's own face bases (complex and real form), laplacian_triangles "
      "(cotan / uniform); TLC compares dense copies entrywise with the exact matrices. volume_laplacian, laplacian_tetrahedra and "
      "laplacian_edges are judged for symmetry and zero row sums. Sheared lattices give obtuse triangles (negative cotangents). Every surface shape is "
      "also run with the cacheable persistent attributes computed before the operators, and with the mesh moved after they exist (the specification "
      "evaluates the moved geometry): four open findings - cotangent Laplacians, gradient and area masses reuse the stale attributes.",
      "Entrywise exactness only where cotangents / areas are rational; the matrix product G* A G is formed in the harness from the "
      "library's matrices, its comparison with the exact Laplacian is TLC's. Connection Laplacians belong to C18.",
      "TLA+ exact operators (C08_Operators) with identities model-checked (C08_MC); TLC entrywise trace validation (C08_Trace)",
      "DESIGN.md 6.8")

check("C17",
      "TLC checks that the square border assignment (C17_Tutte) is injective, lies on the unit square and runs once around it in "
      "border order for every border length 3..16 (the as-built offsets collide after each corner), with C08_MC guarding the weights. "
      "TutteEmbedding runs on all enumerated triangle complexes with <= 6 vertices / <= 5 faces (sampled in quick), lattice grids "
      "(rational cotangent weights), fans with border length 3..16, strips without interior vertex, a closed cube and an annulus, for "
      "circle / square targets, uniform / cotangent weights and both storages; TLC validates: Euler gate (non-disks rejected), per-vertex "
      "= per-corner output, border vertices in the border order read off the face list at distinct positions on the target (exact "
      "rationals on the square; radius^2 = 1 and angle/pi steps of 2/n on the circle), every interior vertex at the weighted mean of its "
      "neighbours (fixed point 10^-6), all triangles with the same non-zero orientation sign.",
      "Orientation signs are computed exactly from the returned floats (Fraction) by the harness. Mean condition for cotangent weights only "
      "where they are multiples of 1/2; orientation clause only for non-negative cotangents and, on the square, when no triangle has all vertices on one side. Custom boundaries not driven.",
      "TLA+ border-assignment function model-checked for n = 3..16 (C17_MC); TLC trace validation with MeshCore border order and exact weights (C17_Trace)",
      "DESIGN.md 6.17")

check("C19",
      "TLC checks over exact rationals that de Casteljau's recursion equals the Bernstein form, interpolates the end points and stays "
      "within the control points' bounds for every control polygon of 2..4 points in {0,1,2}^d (d = 1, 2) and every parameter k/4 "
      "(37 440 combinations). Real Bezier curves / patches with integer control nets are evaluated at k/n and compared exactly; parameters "
      "outside [0,1] must be rejected; polyline / surface exports for equal and unequal sample counts must have the documented counts, "
      "grid-consistent indices and be disks (MeshCore), their vertices exact curve / patch points. Samplers (box uniform / grid in dimension "
      "1-4, sphere, ball with radii 1/4, 1, 3 and centres off the origin, polylines, triangulated surfaces with normals) are judged for the "
      "count rule (nearest perfect power by integer arithmetic), all per-sample domain flags, and exact squared radii on the sphere.",
      "NOT decided and not claimed: that the share of samples per edge / face follows length / area (statistical). Per-sample domain flags are "
      "evaluated by the harness with float comparisons (1e-9); convex-hull membership through coordinate bounds.",
      "TLA+ exact Bezier algebra (C19_Bezier) model-checked (C19_MC); TLC trace validation of exact values, counts and domain flags (C19_Trace)",
      "DESIGN.md 6.19")

check("C18",
      "TLC proves on an integer-angle model (all angles in units of pi/(4n)) that for EVERY assignment of frames exp(i k pi/4) to the faces of small pi/4-lattice "
      "meshes (pinwheel, strip, pillow, cube corner, cube), every order 1-6 and every tie-break of the branch matching, each interior holonomy is a whole number of quanta "
      "and all holonomies sum to 2 pi Euler (C18_MC, up to 3.3M states); sampled fields are written into a real face-based field and flag_singularities() must return "
      "exactly the model's edge rotations and indices. A second model (C18_Harm_MC) builds the connection Laplacian N*DN in polar form and solves the harmonic extension "
      "exactly over the Gaussian rationals: Hermitian, gauge covariant under every re-start of faces / renumbering, equal to the scalar dual Laplacian for zero transport, "
      "extension independent of starts and numbers when constraints are compatible - and dependent when a face carries two incompatible ones, and vanishing on the symmetric "
      "4x4 grid (both expected counterexamples, both reproduced on the real code). Real solvers (faces and vertices, orders 1-6, cotangent / uniform weights, smoothing 0 / 2, "
      "features on / off) run on lattice grids, their re-started and renumbered variants, box surfaces, generic triangulations, an octahedron, a cube and a torus; the trace "
      "validator recomputes feature set, face bases, constrained faces and their constraint (one branch tangent to the single feature side), every Laplacian entry, the exact "
      "normalised harmonic extension (smoothing off), unit modulus, constraints kept, index quantum, sum = 4 Euler, and compares.",
      "Exact clauses only on pi/4-lattice meshes (and, for the extension, Gaussian-rational Laplacians: even order x transport); elsewhere unit modulus, constraints, quantum and "
      "sum are judged exactly and the Hermitian property / numbering independence / the vertex-based harmonic residual are floating-point predicates evaluated by the harness "
      "(1e-12 relative, 1e-6, 1e-6). Closed surfaces use a randomly started eigen-solver (no exact oracle). Trivial-connection and CAD-correction variants need OSQP, which "
      "does not run in this sandbox. Four open findings (vanishing frames stay zero; two incompatible constraints on one element make the result depend on numbering).",
      "TLA+ integer-angle holonomy model and exact Gaussian-rational harmonic extension model-checked (C18_MC, C18_Harm_MC); model fields replayed into flag_singularities; TLC trace validation of solver runs (C18_Trace)",
      "DESIGN.md 6.18")

ALL = ["C%02d" % i for i in range(1, 21)]


def main():
    man = {
        "version": 1,
        "setup_cmd": "true",
        "hooks": {
            "guard": "MOUETTE_VERIF",
            "enable": "no source hooks: the harness observes mouette through its public API and through wrappers "
                      "installed inside the harness process only (DESIGN.md 2.6); bin/check exports MOUETTE_VERIF=1 "
                      "but nothing in /repo reads it",
            "baseline_off_cmd": "cd /repo && /venv/bin/python -m pytest -ra -q -p no:cacheprovider --timeout=900 "
                                "--continue-on-collection-errors",
            "source_commits": [],
            "add_only": True,
        },
        "engines": [{"name": "tlc-trace", "path": "/verif/harness",
                     "serves_properties": sorted(CHECKS),
                     "kind_free_text": "explicit TLA+ specifications in /verif/specs checked by TLC (bounded models), "
                                       "TLC-generated histories/inputs replayed into mouette, and recorded executions "
                                       "of mouette validated by TLC trace specifications"}],
        "checks": [CHECKS[k] for k in sorted(CHECKS)],
        "not_applicable": [{"property_id": k, "reason": NOT_APPLICABLE.get(
            k, "machinery for this property is not built yet (work in progress, see DESIGN.md section 9); not claimed")}
            for k in ALL if k not in CHECKS],
        "notes": "One ./bin/check <id> <tier> per property: stage A TLC model checking of the bounded specification, "
                 "stage B execution of TLC-generated and random cases on /repo's working tree, stage C TLC trace "
                 "validation of every recorded event. exit 0 = held, 1 = VIOLATION line(s), 2 = machinery failure. "
                 "A call of the library that does not return (time / memory watchdog) is a rejection; a validator that is killed or runs out of memory is "
                 "exit 2. Known findings: /verif/known_findings.json (18 open, each with a replay file under /verif/findings; 42 fixed by 'fix:' commits). "
                 "Sub-clauses that are NOT decided by the specifications: C19 the share of samples per edge / face (statistical); C18 closed surfaces beyond "
                 "modulus / quantum / sum (randomly started eigen-solver) and the OSQP-based variants (OSQP does not run in this sandbox); exact numeric oracles "
                 "exist on integer-lattice inputs only (DESIGN.md 8). 158 seeded changes with their outcomes are under /verif/seeded (bin/seeded, bin/selftest); "
                 "./bin/check X01 quick runs a specification of behaviour outside the listed properties (DESIGN.md 10.8).",
    }
    with open(os.path.join(HERE, "MANIFEST.json"), "w") as f:
        json.dump(man, f, indent=1)
        f.write("\n")


if __name__ == "__main__":
    main()
