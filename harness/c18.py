"""C18 - surface frame fields are unit, border-aligned and topologically consistent.

Stage A  C18_MC: for every field of frames exp(i k pi/4) on small pi/4-lattice meshes, every order 1..6 and every way of
         breaking matching ties, each interior holonomy is a whole number of quanta and all holonomies add up to
         2 pi Euler; sampled fields are emitted.  C18_Harm_MC: the connection Laplacian is Hermitian, gauge covariant and
         reduces to the scalar dual Laplacian; the exact harmonic extension does not depend on face starts / numbering
         when every face carries compatible constraints (and does when not - expected violation), and can vanish.
Stage B  the emitted fields are written into a real FrameField2DFaces and flag_singularities() is run; the real solvers
         (faces and vertices, orders 1-6, cotangent / uniform weights, 0 or more smoothing steps, features on/off) are run
         on lattice meshes, their renumbered / re-started variants, box surfaces, generic triangulations, closed surfaces.
Stage C  C18_Trace recomputes bases, constraints, Laplacian entries, the exact harmonic extension, the matching and the
         holonomies and compares; quantum and Poincare-Hopf clauses are judged on every run.
"""
import cmath
import math
import random

import numpy as np

from c07 import rat, sgn

PI4 = math.pi / 4


def polar(z):
    """[|z|^2 as a rational, phase index k (z = |z| exp(i k pi/4)) or 9]."""
    a = abs(z)
    if a < 1e-12:
        return [[0, 1], 0]
    t = cmath.phase(z) / PI4
    k = round(t)
    return [rat(a * a), (k % 8) if abs(t - k) < 1e-10 else 9]


def zrec(z):
    z = complex(z)
    z2 = z * z
    return {"m2": rat(abs(z) ** 2, 10 ** 6), "sq": [rat(z2.real, 10 ** 6), rat(z2.imag, 10 ** 6)], "sg": [sgn(z.real), sgn(z.imag)]}


def build(mesh):
    import c09
    return c09.build({"kind": "surface", "P": mesh["P"], "F": mesh["F"], "C": [], "E0": []})


def as_built(m):
    return {"P": [[int(round(c)) for c in p] for p in m.vertices], "F": [[int(v) for v in f] for f in m.faces],
            "E": [[int(a), int(b)] for a, b in m.edges]}


def base_index(m, conn, i):
    X = np.asarray(conn.base(i)[0], dtype=float)
    f = list(m.faces[i])
    for j in range(3):
        d = np.asarray(m.vertices[f[(j + 1) % 3]], dtype=float) - np.asarray(m.vertices[f[j]], dtype=float)
        d = d / np.linalg.norm(d)
        if np.linalg.norm(X - d) < 1e-9:
            return j + 1
    return 0


def canonical(m, conn, i, z, n):
    """the frame of face i against a direction that only depends on the geometry (start at the lexicographically least point)."""
    f = list(m.faces[i])
    pts = [np.asarray(m.vertices[v], dtype=float) for v in f]
    j = min(range(3), key=lambda t: tuple(np.round(pts[t], 9)))
    xr = pts[(j + 1) % 3] - pts[j]
    xr = xr / np.linalg.norm(xr)
    X, Y = (np.asarray(v, dtype=float) for v in conn.base(i))
    th = math.atan2(float(np.dot(xr, Y)), float(np.dot(xr, X)))     # direction of the reference in the basis
    return z * cmath.rect(1, -n * th)


def canonical_v(m, conn, v, z, n):
    """the frame of vertex v against the direction (in its tangent plane) of the geometrically least neighbour."""
    X, Y = (np.asarray(b, dtype=float) for b in conn.base(v))
    p = np.asarray(m.vertices[v], dtype=float)
    nb = [int(u) for u in m.connectivity.vertex_to_vertices(v)]
    u = min(nb, key=lambda t: tuple(np.round(np.asarray(m.vertices[t], dtype=float), 9)))
    d = np.asarray(m.vertices[u], dtype=float) - p
    th = math.atan2(float(np.dot(d, Y)), float(np.dot(d, X)))
    return z * cmath.rect(1, -n * th)


def degenerate_weights(mesh):
    """does some interior edge see two opposite angles whose cotangents cancel (the library then uses the weight 1e8)?"""
    P = [np.asarray(p, dtype=float) for p in mesh["P"]]
    opp = {}
    for f in mesh["F"]:
        for i in range(3):
            a, b, c = f[i], f[(i + 1) % 3], f[(i + 2) % 3]
            u, w = P[a] - P[c], P[b] - P[c]
            cr = float(np.linalg.norm(np.cross(u, w)))
            opp.setdefault((min(a, b), max(a, b)), []).append(float(np.dot(u, w)) / cr if cr > 0 else float("inf"))
    return any(len(v) == 2 and abs(v[0] + v[1]) < 1e-6 for v in opp.values())


def sing_fields(m, ff, n, e):
    s = m.vertices.get_attribute("singuls")
    vals = [float(s[v]) for v in range(len(m.vertices))]
    e["sing"] = [rat(x, 1000) for x in vals]
    tot = sum(vals)
    e["sumint"] = int(round(tot))
    unfl = sum(1 for x in vals if x == 0.0)
    e["sumtol"] = int(abs(tot - round(tot)) <= unfl * 6.4e-4 + 1e-6)
    ang = m.edges.get_attribute("angles")
    e["rot"] = [rat(float(ang[i]) * 4 * n / math.pi, 1000) for i in range(len(m.edges))]
    e["fk"] = [polar(complex(z))[1] if abs(abs(z) - 1) < 1e-9 else 9 for z in ff.var]      # a vanishing frame has no phase


def run_faces(ev, e):
    import mouette as M
    O = M.operators
    n, cot, ns = ev["n"], bool(ev["cotan"]), ev["ns"]
    m = build(ev["mesh"])
    e["mesh"] = as_built(m)
    nf = len(m.faces)
    ff = M.framefield.SurfaceFrameField(m, "faces", order=n, features=bool(ev["feats"]), n_smooth=ns, use_cotan=cot, verbose=False)
    ff.initialize()
    e["fe"] = sorted(int(x) for x in ff.feat.feature_edges)
    e["base"] = [base_index(m, ff.conn, i) for i in range(nf)]
    zi = np.array(ff.var, dtype=complex).copy()
    e["zi"] = [polar(z) for z in zi]
    if nf <= 24:
        L = np.asarray(O.laplacian_triangles(m, cotan=cot, connection=ff.conn, order=n).todense())
        e["L"] = [[polar(z) for z in r] for r in L]
        e["herm"] = int(np.abs(L - L.conj().T).max() <= 1e-12 * max(1.0, np.abs(L).max()))
        if all(abs(p[2]) < 1e-12 for p in m.vertices):
            Lf = np.asarray(O.laplacian_triangles(m, cotan=cot, connection=M.processing.FlatConnectionFaces(m), order=n).todense())
            e["Lflat"] = [[rat(x) for x in r] for r in np.real(Lf)]
            e["flatim"] = int(np.abs(np.imag(Lf)).max() < 1e-12)
    e["compat"] = 1          # do the constraints of every face ask for the same frame?
    fes = set(e["fe"])
    for i in range(nf):
        f = list(m.faces[i])
        X, Y = (np.asarray(b, dtype=float) for b in ff.conn.base(i))
        want = []
        for j in range(3):
            a, b = f[j], f[(j + 1) % 3]
            if int(m.connectivity.edge_id(a, b)) in fes:
                d = np.asarray(m.vertices[b], dtype=float) - np.asarray(m.vertices[a], dtype=float)
                want.append(cmath.rect(1, n * math.atan2(float(np.dot(d, Y)), float(np.dot(d, X)))))
        if any(abs(w - want[0]) > 1e-9 for w in want):
            e["compat"] = 0
    if ev.get("pre_ns") is not None:
        # history: the same solver object first ran with another number of smoothing steps; then the option is changed and optimize() is called again
        ff.n_smooth = ev["pre_ns"]
        ff.run()
        ff.n_smooth = ns
        ff.optimize()
    else:
        ff.run()
    e["fixed"] = sorted(i for i in range(nf) if m.faces.has_attribute("fixed") and bool(m.faces.get_attribute("fixed")[i]))
    e["hasfixed"] = int(m.faces.has_attribute("fixed"))
    z = np.array(ff.var, dtype=complex).copy()
    e["z"] = [zrec(x) for x in z]
    e["kept"] = [int(abs(z[i] - zi[i]) < 1e-9) for i in range(nf)]
    ff.flag_singularities()
    sing_fields(m, ff, n, e)
    return [canonical(m, ff.conn, i, z[i], n) for i in range(nf)]


def run_vertices(ev, e):
    import mouette as M
    O = M.operators
    n, cot, ns = ev["n"], bool(ev["cotan"]), ev["ns"]
    m = build(ev["mesh"])
    e["mesh"] = as_built(m)
    nv = len(m.vertices)
    ff = M.framefield.SurfaceFrameField(m, "vertices", order=n, features=bool(ev["feats"]), n_smooth=ns, use_cotan=cot, verbose=False,
                                        cad_correction=False, smooth_normals=bool(ev.get("smooth_normals", 1)))
    ff.initialize()
    e["fe"] = sorted(int(x) for x in ff.feat.feature_edges)
    e["fv"] = sorted(int(x) for x in ff.feat.feature_vertices)
    zi = np.array(ff.var, dtype=complex).copy()
    e["zi"] = [polar(z) for z in zi]
    if nv <= 30:
        L = np.asarray(O.laplacian(m, cotan=cot, connection=ff.conn, order=n).todense())
        e["herm"] = int(np.abs(L - L.conj().T).max() <= 1e-12 * max(1.0, np.abs(L).max()))
        e["Ldiag"] = [rat(x) for x in np.real(np.diag(L))]
        e["Labs2"] = [[rat(abs(x) ** 2) for x in r] for r in L]
        if all(abs(p[2]) < 1e-12 for p in m.vertices):
            Lf = np.asarray(O.laplacian(m, cotan=cot, connection=M.processing.FlatConnectionVertices(m), order=n).todense())
            e["Lflat"] = [[rat(x) for x in r] for r in np.real(Lf)]
            e["flatim"] = int(np.abs(np.imag(Lf)).max() < 1e-9)
    e["compat"] = 1          # do the feature edges of every vertex ask for the same frame? (even orders average the edge directions)
    if n % 2 == 0 and ev.get("smooth_normals", 1):
        for v in e["fv"]:
            want = []
            for ed in e["fe"]:
                a, b = (int(t) for t in m.edges[ed])
                if v in (a, b):
                    d = np.asarray(m.vertices[b], dtype=float) - np.asarray(m.vertices[a], dtype=float)
                    px, py = ff.conn.project(d, v)
                    w = complex(px, py)
                    want.append((w / abs(w)) ** n)
            if any(abs(w - want[0]) > 1e-9 for w in want):
                e["compat"] = 0
    ff.run()
    z = np.array(ff.var, dtype=complex).copy()
    e["z"] = [zrec(x) for x in z]
    e["kept"] = [int(abs(z[i] - zi[i]) < 1e-9) for i in range(nv)]
    # with smoothing off the free values solve  L_II x = - L_IB z_B  up to a positive factor per vertex: residual of the recovered x
    e["harm"] = 2
    fixed = set(e["fv"])
    free = [v for v in range(nv) if v not in fixed]
    if ns == 0 and fixed and free:
        L = O.laplacian(m, cotan=cot, connection=ff.conn, order=n).tocsc()
        fx = sorted(fixed)
        x = np.linalg.solve(np.asarray(L[free, :][:, free].todense()), -np.asarray(L[free, :][:, fx].todense()) @ zi[fx])
        ok = all(abs(x[i]) < 1e-9 or abs(x[i] / abs(x[i]) - z[free[i]]) < 1e-6 for i in range(len(free)))
        e["harm"] = int(ok)
    return [canonical_v(m, ff.conn, v, z[v], n) for v in range(nv)]


MC_MESHES = {
    "pinwheel": ([[0, 0, 0], [2, 0, 0], [2, 2, 0], [0, 2, 0], [1, 1, 0]], [[0, 1, 4], [1, 2, 4], [2, 3, 4], [3, 0, 4]]),
    "pillow": ([[0, 0, 0], [1, 0, 0], [1, 1, 0], [0, 1, 0]], [[0, 1, 2], [0, 2, 3], [0, 3, 1], [1, 3, 2]]),
    "corner": ([[0, 0, 0], [1, 0, 0], [0, 1, 0], [0, 0, 1], [1, 1, 0], [0, 1, 1], [1, 0, 1]],
               [[0, 2, 4], [0, 4, 1], [0, 3, 5], [0, 5, 2], [0, 1, 6], [0, 6, 3]]),
    "cube": ([[0, 0, 0], [2, 0, 0], [2, 2, 0], [0, 2, 0], [0, 0, 2], [2, 0, 2], [2, 2, 2], [0, 2, 2]],
             [[0, 2, 1], [0, 3, 2], [0, 1, 5], [0, 5, 4], [1, 2, 6], [1, 6, 5], [2, 3, 7], [2, 7, 6], [3, 0, 4], [3, 4, 7], [4, 5, 6], [4, 6, 7]]),
    "strip": ([[0, 0, 0], [1, 0, 0], [2, 0, 0], [0, 1, 0], [1, 1, 0], [2, 1, 0]], [[0, 1, 4], [0, 4, 3], [1, 2, 5], [1, 5, 4]]),
}


def flag_field(ev, e):
    import mouette as M
    n = ev["n"]
    m = build(ev["mesh"])
    e["mesh"] = as_built(m)
    ff = M.framefield.SurfaceFrameField(m, "faces", order=n, features=False, n_smooth=0, verbose=False)
    ff.initialize()
    e["fe"] = sorted(int(x) for x in ff.feat.feature_edges)
    e["base"] = [base_index(m, ff.conn, i) for i in range(len(m.faces))]
    ff.var = np.array([cmath.rect(1, k * PI4) for k in ev["field"]], dtype=complex)
    ff.flag_singularities()
    sing_fields(m, ff, n, e)


PARTS = {"run": ["setup", "laplacian", "field", "singularities", "invariance"], "runv": ["vsetup", "vlaplacian", "vfield", "vinvariance"]}
FIELDS = {
    "setup": ["fe", "base", "zi", "fixed", "hasfixed"], "laplacian": ["fe", "L", "herm", "Lflat", "flatim"], "field": ["fe", "zi", "z", "kept"],
    "singularities": ["fe", "base", "sing", "sumint", "sumtol", "rot", "fk", "field"], "invariance": ["fe", "inv", "compat"],
    "vsetup": ["fe", "fv", "zi"], "vlaplacian": ["fe", "herm", "Ldiag", "Labs2", "Lflat", "flatim"], "vfield": ["fe", "z", "kept", "harm"], "vinvariance": ["fe", "inv", "compat"],
}
COMMON = ["n", "cotan", "ns", "feats", "variant", "perm", "elem", "exc", "mesh", "run", "smooth_normals", "pre_ns"]


def exec_case(case):
    """input events: op run / runv / flag (or, in a replayed observed case, the parts themselves: the first part of a run re-executes it)."""
    events = []
    ref = None
    for ev in case["events"]:
        op = ev["op"]
        if op in ("setup", "vsetup"):
            op = "run" if op == "setup" else "runv"
        elif op == "singularities" and ev.get("run") == "flag":
            op = "flag"
        elif op not in ("run", "runv", "flag"):
            continue                                    # a later part of a run that is re-executed by its first part
        e = {k: v for k, v in ev.items() if k in COMMON and k not in ("exc", "mesh")}
        e.update({"exc": "", "mesh": {"P": ev["mesh"]["P"], "F": ev["mesh"]["F"], "E": []}, "fe": [], "fv": [], "base": [], "zi": [], "L": [], "herm": 2, "Lflat": [],
                  "flatim": 2, "fixed": [], "hasfixed": 0, "z": [], "kept": [], "sing": [], "sumint": 0, "sumtol": 2, "rot": [], "fk": [], "inv": 2,
                  "harm": 2, "compat": 2, "Ldiag": [], "Labs2": [], "field": list(ev.get("field", [])), "run": op, "elem": "vertices" if op == "runv" else "faces"})
        src = dict(ev)
        src["mesh"] = ev.get("mesh0", ev["mesh"])           # the mesh as it was given (an observed event carries the mesh as built too)
        e["mesh0"] = src["mesh"]
        try:
            if op == "flag":
                flag_field(src, e)
            else:
                can = run_faces(src, e) if op == "run" else run_vertices(src, e)
                # independence of numbering is judged with smoothing off (the smoothing weight comes from an iterative eigen-solver started at
                # random) and without the library's 1e8 stand-in weights for edges whose opposite cotangents cancel (round-off is amplified by 1e8)
                comparable = ev["ns"] == 0 and not (ev["cotan"] and degenerate_weights(src["mesh"]))
                if ev.get("variant", 0) == 0:
                    ref = can
                elif ref is not None and comparable:
                    if op == "run":                          # faces keep their place
                        e["inv"] = int(max(abs(a - b) for a, b in zip(can, ref)) < 1e-6)
                    else:                                    # vertices are renumbered by perm (old -> new)
                        perm = ev["perm"]
                        e["inv"] = int(max(abs(can[perm[v]] - ref[v]) for v in range(len(ref))) < 1e-6)
        except Exception as ex:       # the solver is part of what is judged
            e["exc"] = type(ex).__name__ + ":" + str(ex)[:80]
        parts = ["singularities"] if op == "flag" else PARTS[op]
        for part in parts:
            q = {k: e[k] for k in COMMON + ["mesh0"] + FIELDS[part] if k in e}
            q["op"] = part
            events.append(q)
            if e["exc"]:
                break                                   # a failed run is reported once
    return {"id": case["id"], "given": case["given"], "events": events}


# ------------------------------------------------------------------ input families
def grid(nx, ny, sx=1, sy=1, diag=lambda i, j: 0):
    idx = lambda i, j: i * (ny + 1) + j
    P = [[sx * i, sy * j, 0] for i in range(nx + 1) for j in range(ny + 1)]
    F = []
    for i in range(nx):
        for j in range(ny):
            if diag(i, j) == 0:
                F += [[idx(i, j), idx(i + 1, j), idx(i + 1, j + 1)], [idx(i, j), idx(i + 1, j + 1), idx(i, j + 1)]]
            else:
                F += [[idx(i, j), idx(i + 1, j), idx(i, j + 1)], [idx(i + 1, j), idx(i + 1, j + 1), idx(i, j + 1)]]
    return P, F


def variant(P, F, rng, rotate=True, permute=True):
    nv = len(P)
    perm = list(range(nv))
    if permute:
        rng.shuffle(perm)
    P2 = [None] * nv
    for old, new in enumerate(perm):
        P2[new] = P[old]
    F2 = []
    for f in F:
        g = [perm[v] for v in f]
        r = rng.randrange(3) if rotate else 0
        F2.append(g[r:] + g[:r])
    return {"P": P2, "F": F2}, perm


def families(rng, thorough):
    fam = []
    fam.append(("grid2", grid(2, 2), "lattice"))
    fam.append(("grid3", grid(3, 3), "lattice"))
    fam.append(("uj3", grid(3, 3, diag=lambda i, j: 1 if (i, j) in ((0, 2), (2, 0)) else 0), "lattice"))
    fam.append(("pin2", ([[0, 0, 0], [2, 0, 0], [2, 2, 0], [0, 2, 0], [1, 1, 0], [4, 0, 0], [2, 4, 0]],
                         [[0, 1, 4], [1, 2, 4], [2, 3, 4], [3, 0, 4], [1, 5, 2], [2, 6, 3]]), "lattice"))
    fam.append(("grid3x2alt", grid(3, 2, diag=lambda i, j: (i + j) % 2), "lattice"))
    cubeP, cubeF = MC_MESHES["cube"]
    fam.append(("cube", (cubeP, cubeF), "closed"))
    fam.append(("box-open", (cubeP, cubeF[:10]), "box"))
    fam.append(("corner", MC_MESHES["corner"], "box"))
    fam.append(("grid345", grid(3, 3, 3, 4), "generic"))
    # an irregular disk and an octahedron with lattice coordinates
    fam.append(("fan7", ([[0, 0, 0], [5, 0, 0], [3, 4, 1], [-1, 5, 0], [-4, 2, 1], [-4, -3, 0], [0, -5, 1], [4, -3, 0]],
                         [[0, 1, 2], [0, 2, 3], [0, 3, 4], [0, 4, 5], [0, 5, 6], [0, 6, 7], [0, 7, 1]]), "generic"))
    fam.append(("octa", ([[3, 0, 0], [0, 2, 0], [-3, 0, 0], [0, -2, 0], [0, 0, 4], [0, 0, -1]],
                         [[0, 1, 4], [1, 2, 4], [2, 3, 4], [3, 0, 4], [1, 0, 5], [2, 1, 5], [3, 2, 5], [0, 3, 5]]), "closed"))
    if thorough:
        fam.append(("grid4", grid(4, 4), "lattice"))
        fam.append(("grid4x3alt", grid(4, 3, diag=lambda i, j: (i + j) % 2), "lattice"))
        fam.append(("grid345b", grid(4, 3, 4, 3), "generic"))
    return fam


def torus(nu, nv):
    P, F = [], []
    for i in range(nu):
        for j in range(nv):
            a, b = 2 * math.pi * i / nu, 2 * math.pi * j / nv
            P.append([round(10 * (3 + math.cos(b)) * math.cos(a)), round(10 * (3 + math.cos(b)) * math.sin(a)), round(10 * math.sin(b))])
    idx = lambda i, j: (i % nu) * nv + (j % nv)
    for i in range(nu):
        for j in range(nv):
            F += [[idx(i, j), idx(i + 1, j), idx(i + 1, j + 1)], [idx(i, j), idx(i + 1, j + 1), idx(i, j + 1)]]
    return P, F


def run(ctx):
    rng = random.Random(ctx.seed)
    thorough = ctx.tier == "thorough"
    # ---- stage A
    fields = []
    for cfg, kw in [("C18_MC.cfg", {}), ("C18_MC_pillow.cfg", {}), ("C18_MC_strip.cfg", {})] + \
                   ([("C18_MC_corner.cfg", {})] if thorough else []) + \
                   [("C18_MC_cube.cfg", {"simulate": "num=%d" % (120 if thorough else 12), "depth": 14, "seed": ctx.seed + 1})]:
        r = ctx.model_check("C18_MC", cfg, "index quantum and Poincare-Hopf sum for every lattice field, order 1-6, every tie-break (%s)" % cfg, workers=16, **kw)
        fields += [x for x in r.records if x.get("k") == "field"]
    ctx.model_check("C18_MC", "C18_MC_nosing.cfg", "a singular field exists (theorems not vacuous)", expect_violation="NoSingularity", workers=4)
    ctx.model_check("C18_MC", "C18_MC_notie.cfg", "matching ties exist", expect_violation="NoTie", workers=4)
    for cfg in ["C18_Harm_MC.cfg", "C18_Harm_MC_uj3.cfg", "C18_Harm_MC_pin2.cfg", "C18_Harm_MC_pin2u.cfg", "C18_Harm_MC_odd.cfg"] + \
               (["C18_Harm_MC_grid2_all.cfg", "C18_Harm_MC_uj3_all.cfg"] if thorough else []):
        ctx.model_check("C18_Harm_MC", cfg, "connection Laplacian Hermitian / gauge covariant / flat reduction; harmonic extension independent of starts and numbers (%s)" % cfg, workers=16)
    ctx.model_check("C18_Harm_MC", "C18_Harm_MC_depends.cfg", "two incompatible constraints on a face make the result depend on the start", expect_violation="DoubleConstraintDepends", workers=4)
    ctx.model_check("C18_Harm_MC", "C18_Harm_MC_vanish.cfg", "the harmonic extension can vanish", expect_violation="NeverVanishes", workers=4)
    # ---- stage B: replay of the emitted fields
    cases = []
    seen = set()
    cap = 1500 if thorough else 400
    rng.shuffle(fields)
    for x in fields:
        key = (x["mesh"], x["n"], tuple(x["fk"]))
        if key in seen or len(seen) >= cap:
            continue
        seen.add(key)
        P, F = MC_MESHES[x["mesh"]]
        cases.append({"id": "field-%s-%d-%d" % (x["mesh"], x["n"], len(cases)), "given": {"family": "mc-" + x["mesh"]},
                      "events": [{"op": "flag", "n": x["n"], "field": list(x["fk"]), "mesh": {"P": P, "F": F}, "cotan": 0, "ns": 0, "feats": 0, "variant": 0}]})
    obs = ctx.execute("c18", "exec_case", cases, chunksize=8)
    ctx.judge("C18_Trace", "C18_Trace.cfg", obs, "model-fields-replayed", "c18", "exec_case", batch_events=40)
    # ---- solver runs
    cases = []
    fams = families(rng, thorough)
    for name, (P, F), kind in fams:
        configs = [(n, cot, ns) for n in range(1, 7) for cot in (0, 1) for ns in (0, 2)]
        if not thorough:
            configs = [c for c in configs if c[2] == 0 or c[0] in (2, 4)] if kind == "lattice" else rng.sample(configs, 5)
        for (n, cot, ns) in configs:
            for op in ("run", "runv"):
                if op == "runv" and (kind == "closed" or (not thorough and rng.random() < 0.5)):
                    continue
                feats = int(kind == "box" and rng.random() < 0.5)
                evs = []
                nvar = (3 if thorough else 2) if kind != "closed" else 0
                for k in range(1 + nvar):
                    if k == 0:
                        mesh, perm = {"P": P, "F": F}, list(range(len(P)))
                    else:
                        mesh, perm = variant(P, F, rng, rotate=True, permute=(k != 1))
                    evs.append({"op": op, "n": n, "cotan": cot, "ns": ns, "feats": feats, "mesh": mesh, "variant": k, "perm": perm,
                                "smooth_normals": 1})
                    if op == "run" and k == 0 and ns == 0 and n in (2, 4) and kind != "closed":
                        evs.append(dict(evs[-1], variant=90, pre_ns=3))      # the same run reached through a first run with smoothing on the same object
                cases.append({"id": "%s-%s-n%d-c%d-s%d-f%d" % (name, op, n, cot, ns, feats), "given": {"family": name}, "events": evs})
    tP, tF = torus(6, 5)
    for n in (4, 2, 3) if thorough else (4,):
        cases.append({"id": "torus-n%d" % n, "given": {"family": "torus"},
                      "events": [{"op": "run", "n": n, "cotan": 1, "ns": 1, "feats": 0, "mesh": {"P": tP, "F": tF}, "variant": 0, "perm": []}]})
    obs = ctx.execute("c18", "exec_case", cases, chunksize=2)
    ctx.judge("C18_Trace", "C18_Trace.cfg", obs, "solver-runs", "c18", "exec_case", batch_events=12)
    ctx.exhaustive = False
    ctx.assumptions += [
        "exact clauses (bases, Laplacian entries, harmonic extension, matching, holonomy) only on meshes whose corner angles are multiples of pi/4 and, for the extension, whose Laplacian entries are Gaussian rationals (even order x transport); elsewhere unit modulus, constraints, Hermitian flag, quantum and Poincare-Hopf sum are judged",
        "the vertex-based field is judged for unit modulus, constraints kept, Hermitian / flat reduction, and (smoothing off) by a floating-point residual of the harmonic system evaluated in the harness; its singularities are only +-1 flags and are not part of the property",
        "independence of numbering: exact at the specification level (C18_Harm_MC) and through agreement of every variant with the exact extension; on other meshes a floating-point comparison of canonical directions recorded by the harness (1e-6)",
        "closed surfaces use a randomly started eigen-solver: only unit modulus, quantum and sum are judged; trivial-connection and CAD-correction variants need OSQP, which does not run in this sandbox",
    ]
