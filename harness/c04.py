"""C04 - saving then loading a mesh is lossless within each format's vocabulary.

Stage A  C04_MC: an independent reference codec (C04_Codec, written from the format descriptions) is
         lossless within each vocabulary for a family of meshes x 6 text formats; it emits files.
Stage B  for every mesh (point clouds, polylines, triangle / quad / mixed / pentagon surfaces, tetrahedral and
         hexahedral volumes, with declared hard edges; coordinates from a pool with negative, tiny, huge and
         17-digit values) and every format:   (i) mouette saves, the file is split into uninterpreted tokens;
         (ii) the reference writer's file is loaded by mouette;   (iii) mouette loads what it saved.
Stage C  C04_Trace: (i) Read_f(tokens) = Project_f(m);  (ii)/(iii) loaded containers = Build(Project_f(m)).
         Coordinates are ids of float64 bit patterns, so bit-exactness is an integer equality.
"""
import os
import random
import re
import struct
import tempfile

import numpy as np

POOL = [0.0, 1.0, -1.0, 0.5, 2.75, -3.125, 0.1, 1e-300, 5e-324, 1e300, -1e300, 0.30000000000000004, 123456.78901234567, -0.0009765625, -0.0]   # -0.0 last: its bit pattern differs from 0.0
STL_POOL = [0.0, 1.0, -1.0, 0.5, 2.75, -3.125, 0.1, 0.30000000000000004, 123456.78901234567, -0.0009765625, 3.0, 7.5]
FORMATS = ["obj", "mesh", "geogram_ascii", "off", "tet", "xyz"]
_INT = re.compile(r"^[+-]?\d+$")


def bits(x):
    return struct.pack("<d", float(x))


def id_of(pool):
    return {bits(v): i + 1 for i, v in enumerate(pool)}


def lex(path, ids):
    lines = []
    with open(path) as f:
        for raw in f.read().split("\n"):
            toks = []
            for t in raw.split():
                if _INT.match(t):
                    toks.append({"k": "i", "s": "", "n": int(t)})
                else:
                    try:
                        v = float(t)
                        toks.append({"k": "f", "s": "", "n": ids.get(bits(v), 0)})
                    except ValueError:
                        toks.append({"k": "w", "s": t, "n": 0})
            if toks:
                lines.append(toks)
    return lines


def render(lines, pool):
    out = []
    for l in lines:
        out.append(" ".join(t["s"] if t["k"] == "w" else (str(t["n"]) if t["k"] == "i" else repr(pool[t["n"] - 1])) for t in l))
    return "\n".join(out) + "\n"


def build(g, pool):
    import mouette as M
    from mouette.geometry import Vec
    m = g["m0"]
    data = M.mesh.RawMeshData()
    for p in m["V"]:
        data.vertices.append(Vec(pool[p[0] - 1], pool[p[1] - 1], pool[p[2] - 1]))
    data.edges += [tuple(e) for e in m["E"]]
    data.faces += [list(f) for f in m["F"]]
    data.cells += [list(c) for c in m["C"]]
    mesh = M.mesh.mesh._instanciate_raw_mesh_data(data)
    for a in g.get("att0", []):
        cont = {"vertices": mesh.vertices, "edges": getattr(mesh, "edges", None), "faces": getattr(mesh, "faces", None), "cells": getattr(mesh, "cells", None)}[a["on"]]
        typ = {"int": int, "bool": bool, "float": float}[a["type"]]
        at = cont.create_attribute(a["name"], typ, a["dim"], dense=bool(a.get("dense", 0)))
        n = len(cont)
        for i in range(n):
            vals = [a["gen"][(i * a["dim"] + j) % len(a["gen"])] for j in range(a["dim"])]
            vals = [typ(pool[v - 1]) if a["type"] == "float" else typ(v) for v in vals]
            at[i] = vals[0] if a["dim"] == 1 else vals
    return mesh


GEO_SET = {"vertices": "\"GEO::Mesh::vertices\"", "edges": "\"GEO::Mesh::edges\"", "faces": "\"GEO::Mesh::facets\"", "cells": "\"GEO::Mesh::cells\""}
GEO_TYPE = {"int": "\"index_t\"", "bool": "\"bool\"", "float": "\"double\""}


def abstract(mesh, ids, g):
    """the built source mesh in the vocabulary of the specification"""
    L = lambda c: [[int(v) for v in x] for x in c]
    V = [[ids.get(bits(c), 0) for c in v] for v in mesh.vertices]
    E = L(mesh.edges) if hasattr(mesh, "edges") else []
    H = []
    if hasattr(mesh, "edges") and mesh.edges.has_attribute("hard_edges"):
        h = mesh.edges.get_attribute("hard_edges")
        H = [E[i] for i in range(len(E)) if bool(h[i])]
    elif not hasattr(mesh, "faces"):
        H = list(E)
    att = []
    for a in g.get("att0", []):
        cont = {"vertices": mesh.vertices, "edges": getattr(mesh, "edges", None), "faces": getattr(mesh, "faces", None), "cells": getattr(mesh, "cells", None)}[a["on"]]
        at = cont.get_attribute(a["name"])
        vals = []
        for i in range(len(cont)):
            for x in np.ravel(at[i]):
                vals.append(ids.get(bits(x), 0) if a["type"] == "float" else int(x))
        att.append({"set": GEO_SET[a["on"]], "name": "\"%s\"" % a["name"], "type": GEO_TYPE[a["type"]], "dim": a["dim"], "vals": vals})
    return {"V": V, "E": E, "H": H, "F": L(mesh.faces) if hasattr(mesh, "faces") else [], "C": L(mesh.cells) if hasattr(mesh, "cells") else [], "att": att}


def observe(m2, ids, want_atts):
    L = lambda c: [[int(v) for v in x] for x in c]
    o = {"cls": type(m2).__name__, "V": [[ids.get(bits(c), 0) for c in v] for v in m2.vertices],
         "E": L(m2.edges) if hasattr(m2, "edges") else [], "F": L(m2.faces) if hasattr(m2, "faces") else [],
         "C": L(m2.cells) if hasattr(m2, "cells") else [], "hard": [], "att": []}
    if hasattr(m2, "edges") and m2.edges.has_attribute("hard_edges"):
        h = m2.edges.get_attribute("hard_edges")
        o["hard"] = [i for i in range(len(m2.edges)) if bool(h[i])]
    conts = {"\"GEO::Mesh::vertices\"": m2.vertices, "\"GEO::Mesh::edges\"": getattr(m2, "edges", None),
             "\"GEO::Mesh::facets\"": getattr(m2, "faces", None), "\"GEO::Mesh::cells\"": getattr(m2, "cells", None)}
    for a in want_atts:
        cont = conts.get(a["set"])
        name = a["name"].strip('"')
        if cont is None or not cont.has_attribute(name):
            continue
        at = cont.get_attribute(name)
        vals = []
        try:
            for i in range(len(cont)):
                for x in np.ravel(at[i]):
                    vals.append(ids.get(bits(x), 0) if at.type.name == "Float" else int(x))
        except Exception:
            vals = [-999]
        tname = {"Float": "\"double\"", "Int": "\"index_t\"", "Bool": "\"bool\""}.get(at.type.name, at.type.name)
        o["att"].append({"set": a["set"], "name": a["name"], "type": tname, "dim": int(at.elemsize), "vals": vals})
    return o


def exec_case(case):
    import mouette as M
    g = dict(case["given"])
    stl = g.get("stl", 0)
    pool = STL_POOL if stl else POOL
    ids = id_of(pool)
    g.setdefault("cfgE", 1)          # config.complete_edges_from_faces while building, saving and loading
    g.setdefault("objE", 1)          # config.export_edges_in_obj
    saved_cfg = (M.config.complete_edges_from_faces, M.config.export_edges_in_obj)
    M.config.complete_edges_from_faces, M.config.export_edges_in_obj = bool(g["cfgE"]), bool(g["objE"])
    try:
        return _exec_case(case, g, M, stl, pool, ids)
    finally:
        M.config.complete_edges_from_faces, M.config.export_edges_in_obj = saved_cfg


def _exec_case(case, g, M, stl, pool, ids):
    if g["family"] == "reference-writer":
        # the file comes from the reference writer: the specification's own (unbuilt) mesh is what it must mean
        src = None
        g["m"] = dict(g["m0"], H=list(g["m0"]["E"]), att=[])
    else:
        src = build(g, pool)
        g["m"] = abstract(src, ids, g)
    f32 = {}
    for i, v in enumerate(pool):
        f32.setdefault(struct.pack("<f", v) if abs(v) < 3e38 else b"x%d" % i, i + 1)
    g["r32"] = [0] + [f32[struct.pack("<f", v) if abs(v) < 3e38 else b"x%d" % i] for i, v in enumerate(pool)]
    g["r32"] = g["r32"][1:]
    events = []
    tmp = tempfile.mkdtemp(prefix="vf-c04-")
    try:
        for ev in case["events"]:
            f = ev["f"]
            if f == "stl":
                path = os.path.join(tmp, "m.stl")
                e = {"op": "stl_written", "f": f, "exc": "", "tris": []}
                try:
                    M.mesh.save(src, path)
                    raw = open(path, "rb").read()
                    n = struct.unpack("<I", raw[80:84])[0]
                    id32 = {struct.pack("<f", v): f32[struct.pack("<f", v)] for v in pool}
                    for k in range(n):
                        rec = raw[84 + 50 * k: 84 + 50 * (k + 1)]
                        e["tris"].append([[id32.get(rec[12 + 12 * c + 4 * j: 16 + 12 * c + 4 * j], 0) for j in range(3)] for c in range(3)])
                except Exception as ex:
                    e["exc"] = type(ex).__name__ + ":" + str(ex)[:60]
                events.append(e)
                e2 = {"op": "stl_loaded", "f": f, "exc": "", "tris": [], "cls": ""}
                if not e["exc"]:
                    try:
                        m2 = M.mesh.load(path)
                        e2["cls"] = type(m2).__name__
                        id32 = {struct.pack("<f", v): f32[struct.pack("<f", v)] for v in pool}
                        e2["tris"] = [[[id32.get(struct.pack("<f", float(c)), 0) for c in m2.vertices[v]] for v in fa] for fa in m2.faces]
                    except Exception as ex:
                        e2["exc"] = type(ex).__name__ + ":" + str(ex)[:60]
                    events.append(e2)
                continue
            path = os.path.join(tmp, "m." + f)
            if ev["how"] == "self":
                e = {"op": "written", "f": f, "exc": "", "lines": []}
                try:
                    M.mesh.save(src, path)
                    e["lines"] = lex(path, ids)
                except Exception as ex:
                    e["exc"] = type(ex).__name__ + ":" + str(ex)[:60]
                events.append(e)
                if e["exc"]:
                    continue
            else:
                if ev.get("preload"):
                    # history: another mesh was saved to and loaded from this very path before the file is replaced by an independent writer
                    try:
                        pc = M.mesh.from_arrays(np.array([[0., 0., 0.], [1., 0., 0.], [0., 2., 0.], [5., 5., 5.], [7., 7., 7.]]))
                        M.mesh.save(pc, path)
                        M.mesh.load(path)
                    except Exception:
                        pass                   # a format that cannot hold a point cloud: no history then
                with open(path, "w") as fh:
                    fh.write(render(ev["lines"], pool))
            e2 = {"op": "loaded", "f": f, "how": ev["how"], "exc": "", "obs": {}}
            try:
                m2 = M.mesh.load(path)
                e2["obs"] = observe(m2, ids, g["m"]["att"] if ev["how"] == "self" else [])
            except Exception as ex:
                e2["exc"] = type(ex).__name__ + ":" + str(ex)[:60]
            events.append(e2)
    finally:
        import shutil
        shutil.rmtree(tmp, ignore_errors=True)
    if not stl:
        g["m"]["att"] = g["m"]["att"]
    return {"id": case["id"], "given": g, "events": events}


def _shapes(rng, thorough):
    tri2 = {"E": [], "F": [[0, 1, 2], [2, 1, 3]], "C": [], "nv": 4}
    out = [("pointcloud", {"E": [], "F": [], "C": [], "nv": 3}), ("polyline", {"E": [[0, 1], [2, 1], [2, 3]], "F": [], "C": [], "nv": 4}),
           ("triangles", tri2), ("triangles+hard", dict(tri2, E=[[2, 1]])), ("quad", {"E": [], "F": [[0, 1, 2, 3]], "C": [], "nv": 4}),
           ("quads+hard", {"E": [[1, 4]], "F": [[0, 1, 4, 3], [1, 2, 5, 4]], "C": [], "nv": 6}),
           ("mixed", {"E": [], "F": [[0, 1, 2, 3], [1, 4, 2]], "C": [], "nv": 5}), ("mixed-tri-first", {"E": [], "F": [[1, 4, 2], [0, 1, 2, 3], [0, 3, 5]], "C": [], "nv": 6}),
           ("pentagon", {"E": [], "F": [[0, 1, 2, 3, 4]], "C": [], "nv": 5}),
           ("tet", {"E": [], "F": [], "C": [[0, 1, 2, 3]], "nv": 4}), ("tets", {"E": [], "F": [], "C": [[0, 1, 2, 3], [1, 2, 3, 4]], "nv": 5}),
           ("hex", {"E": [], "F": [], "C": [[0, 1, 2, 3, 4, 5, 6, 7]], "nv": 8})]
    return out


def run(ctx):
    rng = random.Random(ctx.seed)
    thorough = ctx.tier == "thorough"
    r = ctx.model_check("C04_MC", "C04_MC.cfg", "reference codec lossless within each vocabulary: 27 meshes x 6 text formats")
    cases = []
    # (ii) files written by the independent writer
    for i, x in enumerate(h for h in r.records if h.get("k") == "W"):
        m = x["m"]
        cases.append({"id": "ref-%d" % i, "given": {"family": "reference-writer", "m0": {"V": m["V"], "E": m["E"], "F": m["F"], "C": m["C"]}},
                      "events": [{"f": x["f"], "how": "reference", "lines": x["lines"], "preload": i % 2}]})
    # (i) + (iii) files written by mouette
    reps = 6 if thorough else 2
    shapes = _shapes(rng, thorough)
    if thorough:
        # every enumerated oriented complex (<= 5 vertices, <= 4 faces) with a random choice of declared edges, once each
        r_enum = ctx.model_check("MeshEnum", "MeshEnum.cfg", "all oriented manifold complexes <= 5 vertices, <= 4 faces (input family of the thorough tier)")
        for j, x in enumerate(y for y in r_enum.records if y.get("k") == "M"):
            if j % 8 != 0:
                continue
            F = [list(f) for f in x["F"]]
            sides = sorted({(min(f[i], f[(i + 1) % len(f)]), max(f[i], f[(i + 1) % len(f)])) for f in F for i in range(len(f))})
            E = [list(e) for e in rng.sample(sides, rng.randint(0, min(2, len(sides))))]
            shapes.append(("enum", {"E": E, "F": F, "C": [], "nv": x["nv"], "once": 1}))
    for name, s in shapes:
        for rep in range(1 if s.get("once") else reps):
            V = [[rng.randint(1, len(POOL)) for _ in range(3)] for _ in range(s["nv"])]
            att0 = []
            if rep % 2 == 1:
                for on in ("vertices", "edges", "faces", "cells"):
                    if (on == "edges" and not (s["E"] or s["F"] or s["C"])) or (on == "faces" and not (s["F"] or s["C"])) or (on == "cells" and not s["C"]):
                        continue
                    typ = rng.choice(["int", "bool", "float"])
                    gen = [rng.randint(0, 1) for _ in range(5)] if typ == "bool" else ([rng.randint(1, len(POOL)) for _ in range(5)] if typ == "float" else [rng.randint(0, 9) for _ in range(5)])
                    att0.append({"on": on, "name": "a_" + on, "type": typ, "dim": rng.choice([1, 1, 2, 3]), "gen": gen, "dense": rng.randint(0, 1)})
            cases.append({"id": "self-%s-%d-%d" % (name, rep, len(cases)), "given": {"family": name, "m0": {"V": V, "E": s["E"], "F": s["F"], "C": s["C"]}, "att0": att0},
                          "events": [{"f": f, "how": "self"} for f in FORMATS]})
            if rep == 0 and (s["F"] or s["C"]) :
                # the two configuration switches that change a format's edge vocabulary
                cases.append({"id": "noE-%s-%d" % (name, len(cases)), "given": {"family": name + "/edges-not-completed", "cfgE": 0, "m0": {"V": V, "E": s["E"], "F": s["F"], "C": s["C"]}, "att0": []},
                              "events": [{"f": f, "how": "self"} for f in ("obj", "mesh", "geogram_ascii")]})
                cases.append({"id": "noObjE-%s-%d" % (name, len(cases)), "given": {"family": name + "/no-edges-in-obj", "objE": 0, "m0": {"V": V, "E": s["E"], "F": s["F"], "C": s["C"]}, "att0": []},
                              "events": [{"f": "obj", "how": "self"}]})
            if s["F"] and all(len(f) in (3, 4) for f in s["F"]) and rep == 0:
                Vs = [[rng.randint(1, len(STL_POOL)) for _ in range(3)] for _ in range(s["nv"])]
                cases.append({"id": "stl-%s-%d-%d" % (name, rep, len(cases)), "given": {"family": name, "stl": 1, "m0": {"V": Vs, "E": s["E"], "F": s["F"], "C": []}},
                              "events": [{"f": "stl", "how": "self"}]})
    obs = ctx.execute("c04", "exec_case", cases, chunksize=4)
    ctx.judge("C04_Trace", "C04_Trace.cfg", [c for c in obs if c["id"].startswith("ref-")], "files-by-independent-writer", "c04", "exec_case", batch_events=80)
    ctx.judge("C04_Trace", "C04_Trace.cfg", [c for c in obs if not c["id"].startswith("ref-")], "files-by-mouette", "c04", "exec_case", batch_events=80)
    ctx.exhaustive = False
    ctx.assumptions += [
        "float formatting / parsing is Python's own (repr / float) and observed only through bit patterns",
        "completed (non-declared) edges are outside the obj / medit vocabulary; medit groups elements by kind, so element order is compared kind by kind",
        "attribute round trip is demanded only for geogram_ascii and bool / int / float attributes of arity >= 1",
        "STL: float32-rounded coordinates per triangle corner (values within float32 range), quads split as (0,1,2),(2,3,0); .ply is not writable and not part of the statement",
    ]
