"""C20 - union-find and priority queue conform to their abstract models.

Stage A  C20_UF_MC / C20_PQ_MC: bounded models (forest refines partition; heap array refines the
         bag with min-extraction); one history per transition is emitted.
Stage B  every history is replayed on a fresh real object (elements instantiated as ints, tuples,
         strings, mixed); random long histories are added (code -> spec).
Stage C  C20_Trace judges every recorded call and the projection recorded after it.
"""
import copy
import math
import random

FAMILIES = ["int", "tuple", "str", "mixed"]


def elem(fam, i):
    if fam == "int":
        return 7 * i + 3
    if fam == "tuple":
        return (i, i + 1)
    if fam == "str":
        return "e%d" % i
    return [5 * i, (i, -i), "m%d" % i, 100 + i][i % 4]


def _table(fam, n):
    return {elem(fam, i): i for i in range(1, n + 1)}


def _to_id(tab, v):
    try:
        if v in tab:
            return tab[v]
    except TypeError:
        pass
    try:
        t = tuple(int(x) for x in v)
        return tab.get(t, 0)
    except Exception:
        return 0


def _intlike(v):
    try:
        if isinstance(v, bool):
            return -1
        if int(v) == v:
            return int(v)
    except Exception:
        pass
    return -1


def _uf_proj(uf, fam, n, tab):
    u = copy.deepcopy(uf)
    has = [i for i in range(1, n + 1) if elem(fam, i) in u]
    conn = []
    for a in has:
        for b in has:
            if a < b and u.connected(elem(fam, a), elem(fam, b)):
                conn.append([a, b])
    return {"has": has, "n": len(u), "ne": int(u.n_elts), "nc": int(u.n_comps), "conn": conn}


def exec_uf(case):
    from mouette.utils import UnionFind
    fam, n = case["given"]["family"], case["given"]["n"]
    tab = _table(fam, n)
    uf = UnionFind()
    events = []
    for ev in case["events"]:
        op, a = ev["op"], list(ev["a"])
        x = [elem(fam, i) for i in a]
        e = {"op": op, "a": a, "exc": "", "ret": [], "pos": []}
        try:
            if op == "add":
                uf.add(x[0])
            elif op == "union":
                uf.union(x[0], x[1])
            elif op == "find":
                e["ret"] = [_intlike(uf.find(x[0]))]
            elif op == "connected":
                e["ret"] = [1 if uf.connected(x[0], x[1]) else 0]
            elif op == "component":
                e["ret"] = sorted(_to_id(tab, v) for v in uf.component(x[0]))
            elif op == "components":
                e["ret"] = [[_to_id(tab, v) for v in comp] for comp in uf.components()]
            elif op == "roots":
                r = list(uf.roots())
                e["ret"] = [_to_id(tab, v) for v in r]
                e["pos"] = [_intlike(v) for v in r]
            elif op == "component_mapping":
                m = uf.component_mapping()
                e["ret"] = [[_to_id(tab, k), sorted(_to_id(tab, v) for v in comp)] for k, comp in m.items()]
            else:
                raise ValueError("unknown op " + op)
        except Exception as ex:  # the call raised: that is an observation, not a failure
            if op not in ("add", "union", "find", "connected", "component", "components", "roots",
                          "component_mapping"):
                raise
            e["exc"] = type(ex).__name__
        e["proj"] = _uf_proj(uf, fam, n, tab)
        events.append(e)
    return {"id": case["id"], "given": case["given"], "events": events}


PRIO = {-9: -math.inf, 9: math.inf}


def exec_pq(case):
    from mouette.utils import PriorityQueue
    pq = PriorityQueue()
    scale = case["given"].get("scale", 1)
    events = []

    def prio(p):
        return PRIO.get(p, p * scale)

    back = {}
    for ev in case["events"]:
        op, a = ev["op"], list(ev["a"])
        e = {"op": op, "a": a, "exc": "", "ret": []}
        try:
            if op == "push":
                back[prio(a[1])] = a[1]
                pq.push(("item", a[0]), prio(a[1]))
            elif op in ("get", "pop"):
                it = pq.get() if op == "get" else pq.pop()
                e["ret"] = [it.x[1], back.get(it.priority, 12345)]
            elif op == "front":
                it = pq.front
                e["ret"] = [it.x[1], back.get(it.priority, 12345)]
            elif op == "empty":
                e["ret"] = [1 if pq.empty() else 0]
            else:
                raise ValueError("unknown op " + op)
        except Exception as ex:
            if op not in ("push", "get", "pop", "front", "empty"):
                raise
            e["exc"] = type(ex).__name__
        e["proj"] = {"empty": 1 if pq.empty() else 0, "size": len(pq.data)}
        events.append(e)
    return {"id": case["id"], "given": case["given"], "events": events}


def _random_uf(rng, k, n, length):
    ops = []
    for _ in range(length):
        r = rng.random()
        x, y = rng.randint(1, n), rng.randint(1, n)
        if r < 0.15:
            ops.append({"op": "add", "a": [x]})
        elif r < 0.50:
            ops.append({"op": "union", "a": [x, y]})
        elif r < 0.65:
            ops.append({"op": "find", "a": [x]})
        elif r < 0.75:
            ops.append({"op": "connected", "a": [x, y]})
        elif r < 0.82:
            ops.append({"op": "component", "a": [x]})
        else:
            ops.append({"op": rng.choice(["roots", "components", "component_mapping"]), "a": []})
    return ops


def _random_pq(rng, length):
    ops, nxt = [], 1
    for _ in range(length):
        r = rng.random()
        if r < 0.5:
            ops.append({"op": "push", "a": [nxt, rng.choice([-9, -3, -1, 0, 0, 1, 2, 2, 9])]})
            nxt += 1
        elif r < 0.8:
            ops.append({"op": rng.choice(["get", "pop"]), "a": []})
        else:
            ops.append({"op": rng.choice(["front", "empty"]), "a": []})
    return ops


def run(ctx):
    rng = random.Random(ctx.seed)
    thorough = ctx.tier == "thorough"
    # ---- stage A
    uf_cfg = "C20_UF_MC_thorough.cfg" if thorough else "C20_UF_MC.cfg"
    pq_cfg = "C20_PQ_MC_thorough.cfg" if thorough else "C20_PQ_MC.cfg"
    r_uf = ctx.model_check("C20_UF_MC", uf_cfg, "forest refines partition; counters; queries stutter")
    r_pq = ctx.model_check("C20_PQ_MC", pq_cfg, "heap order; pop refines remove-a-minimum")
    # ---- stage B: spec -> code (transition cover)
    hs = [x["h"] for x in r_uf.records if x.get("k") == "H" and x["h"]]
    n = 4 if thorough else 3
    cases = []
    for i, h in enumerate(hs):
        fam = FAMILIES[i % 4]
        cases.append({"id": "uf-mc-%d" % i, "given": {"kind": "uf", "family": fam, "n": n},
                      "events": [{"op": a["op"], "a": list(a["a"])} for a in h]})
    # code -> spec: random long histories
    for i in range(400 if thorough else 80):
        fam = FAMILIES[i % 4]
        k = rng.randint(3, 9)
        cases.append({"id": "uf-rnd-%d" % i, "given": {"kind": "uf", "family": fam, "n": k},
                      "events": _random_uf(rng, i, k, rng.randint(20, 60))})
    obs = ctx.execute("c20", "exec_uf", cases)
    ctx.judge("C20_Trace", "C20_Trace.cfg", [c for c in obs if c["id"].startswith("uf-mc")],
              "uf-transition-cover", "c20", "exec_uf")
    ctx.judge("C20_Trace", "C20_Trace.cfg", [c for c in obs if c["id"].startswith("uf-rnd")],
              "uf-random-histories", "c20", "exec_uf")
    hq = [x["h"] for x in r_pq.records if x.get("k") == "H" and x["h"]]
    cases = []
    for i, h in enumerate(hq):
        cases.append({"id": "pq-mc-%d" % i, "given": {"kind": "pq", "family": "pq", "scale": [1, 0.5, 1e300][i % 3]},
                      "events": [{"op": a["op"], "a": list(a["a"])} for a in h]})
    for i in range(300 if thorough else 60):
        cases.append({"id": "pq-rnd-%d" % i, "given": {"kind": "pq", "family": "pq", "scale": 1},
                      "events": _random_pq(rng, rng.randint(20, 80))})
    obs = ctx.execute("c20", "exec_pq", cases)
    ctx.judge("C20_Trace", "C20_Trace.cfg", [c for c in obs if c["id"].startswith("pq-mc")],
              "pq-transition-cover", "c20", "exec_pq")
    ctx.judge("C20_Trace", "C20_Trace.cfg", [c for c in obs if c["id"].startswith("pq-rnd")],
              "pq-random-histories", "c20", "exec_pq")
    ctx.exhaustive = False
    ctx.assumptions += [
        "bounded model: %s and %s (constants in the cfg files); beyond the bounds only random histories" % (uf_cfg, pq_cfg),
        "elements are instantiated as ints, tuples, strings or a mixture; priorities from {-inf,-3..2,+inf} scaled",
        "roots() is accepted under either reading (elements or positions) if it designates one member per block",
        "projection queries run on a deep copy so that they do not disturb the object's own history",
    ]
