"""C19 - samplers stay on their domain; Bezier evaluation matches the Bernstein form.

Stage A  C19_MC: de Casteljau = Bernstein, end-point interpolation, bounding property for every control polygon of
         2..4 points in {0,1,2}^d (d = 1, 2) and every parameter k/4 (exact rationals).
Stage B  samplers over boxes of dimension 1-4 (not the unit cube), centres off the origin, radii 1/4, 1, 3, both box modes,
         lattice polylines and triangulated surfaces; Bezier curves / patches with integer control nets at k/n, exports with
         equal and unequal sample counts, parameters outside [0,1].
Stage C  C19_Trace: count rules (nearest perfect power by integer arithmetic), all domain flags hold, exact radii, exact
         Bernstein values, grid-consistent export indices (MeshCore: disk).  The statistical clause is not decided.
"""
import itertools
import math
import random
from fractions import Fraction

import numpy as np

from c07 import rat


def _on_segment(p, a, b, tol=1e-9):
    ab, ap = b - a, p - a
    cr = np.linalg.norm(np.cross(ab, ap))
    t = float(np.dot(ap, ab)) / float(np.dot(ab, ab))
    return cr <= tol * (1 + np.linalg.norm(ab)) and -tol <= t <= 1 + tol


def _in_triangle(p, a, b, c, tol=1e-9):
    n = np.cross(b - a, c - a)
    if abs(float(np.dot(p - a, n))) > tol * (1 + float(np.dot(n, n))):
        return False
    M_ = np.array([b - a, c - a]).T
    uv, *_ = np.linalg.lstsq(M_, p - a, rcond=None)
    return uv[0] >= -tol and uv[1] >= -tol and uv[0] + uv[1] <= 1 + tol


def exec_case(case):
    import mouette as M
    from mouette.geometry import Vec, AABB
    from mouette import sampling as S
    from mouette.splines import BezierCurve, BezierPatch
    import c09
    events = []
    for ev in case["events"]:
        e = dict(ev)
        e["exc"] = ""
        op = ev["op"]
        try:
            if op == "sample":
                np.random.seed(ev["npseed"])
                kind = ev["kind"]
                e.update({"count": 0, "inside": [], "exact": [], "want": [0, 1]})
                e.setdefault("mode", "uniform")
                e.setdefault("dim", 3)
                if kind == "aabb":
                    lo, hi = np.array(ev["lo"], dtype=float), np.array(ev["hi"], dtype=float)
                    out = S.sample_AABB(AABB(lo, hi), ev["n"], mode=ev["mode"], return_point_cloud=bool(ev.get("pc", 0)))
                    pts = np.array([np.asarray(v, dtype=float) for v in out.vertices]) if ev.get("pc", 0) else np.asarray(out, dtype=float)
                    d = len(lo)
                    e["count"] = int(len(pts))
                    e["inside"] = [1 if (np.all(lo <= p[:d]) and np.all(p[:d] <= hi)) else 0 for p in pts]
                elif kind in ("sphere", "ball"):
                    c = np.array(ev["c"], dtype=float)
                    r = float(Fraction(*ev["r"]))
                    fn = S.sample_sphere if kind == "sphere" else S.sample_ball
                    out = fn(Vec(*c), r, ev["n"], return_point_cloud=bool(ev.get("pc", 0)))
                    pts = np.array([np.asarray(v, dtype=float) for v in out.vertices]) if ev.get("pc", 0) else np.asarray(out, dtype=float)
                    e["count"] = int(len(pts))
                    dist = [float(np.linalg.norm(p - c)) for p in pts]
                    if kind == "sphere":
                        e["inside"] = [1] * len(pts)
                        e["exact"] = [rat(x * x) for x in dist]
                        e["want"] = [ev["r"][0] ** 2, ev["r"][1] ** 2]
                    else:
                        e["inside"] = [1 if x <= r * (1 + 1e-12) else 0 for x in dist]
                elif kind == "polyline":
                    pl = c09.build({"kind": "polyline", "P": ev["P"], "E0": ev["E0"]})
                    out = S.sample_polyline(pl, ev["n"], return_point_cloud=bool(ev.get("pc", 0)))
                    pts = np.array([np.asarray(v, dtype=float) for v in out.vertices]) if ev.get("pc", 0) else np.asarray(out, dtype=float)
                    P = [np.array(p, dtype=float) for p in ev["P"]]
                    e["count"] = int(len(pts))
                    e["inside"] = [1 if any(_on_segment(p, P[a], P[b]) for a, b in ev["E0"]) else 0 for p in pts]
                elif kind == "surface":
                    m = c09.build({"kind": "surface", "P": ev["P"], "F": ev["F"]})
                    Pnow = ev["P"]
                    if ev.get("moved", 0):
                        # history: face normals are stored on the mesh, then the mesh is turned by a quarter turn: the samples' normals are those of the mesh as it is now
                        import mouette as M
                        M.attributes.face_normals(m)
                        Pnow = [[p[0], -p[2], p[1]] for p in ev["P"]]
                        for i, p in enumerate(Pnow):
                            m.vertices[i] = M.geometry.Vec(float(p[0]), float(p[1]), float(p[2]))
                    r = S.sample_surface(m, ev["n"], return_point_cloud=False, return_normals=bool(ev.get("normals", 0)))
                    pts, nrm = (r if ev.get("normals", 0) else (r, None))
                    P = [np.array(p, dtype=float) for p in Pnow]
                    e["count"] = int(len(pts))
                    flags = []
                    for i, p in enumerate(pts):
                        ok = False
                        for f in ev["F"]:
                            a, b, c_ = P[f[0]], P[f[1]], P[f[2]]
                            if _in_triangle(np.asarray(p, dtype=float), a, b, c_):
                                if nrm is None:
                                    ok = True
                                else:
                                    n = np.cross(b - a, c_ - a)
                                    n = n / np.linalg.norm(n)
                                    ok = bool(np.allclose(np.asarray(nrm[i], dtype=float), n, atol=1e-9))
                                if ok:
                                    break
                        flags.append(1 if ok else 0)
                    e["inside"] = flags
                else:
                    raise KeyError(kind)
            elif op == "bezier_curve":
                e["ret"] = []
                cv = BezierCurve([[float(c) for c in p] for p in ev["P"]])
                t_ = ev["t"][0] / ev["t"][1]
                first = cv.evaluate(t_)
                try:                      # what evaluate() returns is the caller's: overwriting it must not move the curve
                    first *= 0.0
                    first += 17.0
                except Exception:
                    pass
                e["ret"] = [rat(x, 10 ** 6) for x in cv.evaluate(t_)]
            elif op == "bezier_patch":
                e["ret"] = []
                pa = BezierPatch([[[float(c) for c in p] for p in row] for row in ev["N"]])
                u_, v_ = ev["u"][0] / ev["u"][1], ev["v"][0] / ev["v"][1]
                first = pa.evaluate(u_, v_)
                try:
                    first *= 0.0
                    first += 17.0
                except Exception:
                    pass
                e["ret"] = [rat(x, 10 ** 6) for x in pa.evaluate(u_, v_)]
            elif op == "as_polyline":
                e["V"], e["E"] = [], []
                cv = BezierCurve([[float(c) for c in p] for p in ev["P"]])
                pl = cv.as_polyline(ev["n"])
                e["V"] = [[rat(c, 10 ** 6) for c in v] for v in pl.vertices]
                e["E"] = [[int(a), int(b)] for a, b in pl.edges]
            elif op == "as_surface":
                e["V"], e["F"] = [], []
                pa = BezierPatch([[[float(c) for c in p] for p in row] for row in ev["N"]])
                sf = pa.as_surface(ev["n1"], ev["n2"])
                e["V"] = [[rat(c, 10 ** 6) for c in v] for v in sf.vertices]
                e["F"] = [[int(v) for v in f] for f in sf.faces]
            else:
                raise KeyError(op)
        except KeyError:
            raise
        except Exception as ex:
            e["exc"] = type(ex).__name__ + ":" + str(ex)[:70]
        events.append(e)
    return {"id": case["id"], "given": {"kind": "sampling"}, "events": events}


def _events(rng, thorough):
    evs = []
    radii = [[1, 4], [1, 1], [3, 1]]
    for d in (1, 2, 3, 4):
        for mode in ("uniform", "grid"):
            for n in ([1, 5, 8, 9, 27, 30, 64, 100] if thorough else [1, 8, 9, 30, 64]):
                lo = [rng.randint(-5, 3) for _ in range(d)]
                hi = [l + rng.randint(1, 4) for l in lo]
                evs.append({"op": "sample", "kind": "aabb", "lo": lo, "hi": hi, "n": n, "mode": mode, "dim": d, "pc": int(d <= 3 and n % 2 == 0),
                            "pcls": "dim%d" % d, "npseed": rng.randrange(10 ** 6)})
    for kind in ("sphere", "ball"):
        for r in radii:
            for c in ([0, 0, 0], [2, -1, 3]):
                evs.append({"op": "sample", "kind": kind, "c": c, "r": r, "n": rng.choice([1, 10, 50]), "pc": rng.randint(0, 1), "mode": "uniform",
                            "pcls": "r=%d/%d" % tuple(r), "npseed": rng.randrange(10 ** 6)})
    P = [[0, 0, 0], [3, 0, 0], [3, 4, 0], [3, 4, 5]]
    for E0 in ([[0, 1]], [[0, 1], [1, 2], [2, 3]], [[0, 1], [2, 3]]):
        evs.append({"op": "sample", "kind": "polyline", "P": P, "E0": E0, "n": 25, "pc": rng.randint(0, 1), "mode": "uniform", "pcls": "%dedges" % len(E0), "npseed": rng.randrange(10 ** 6)})
    Ps = [[0, 0, 0], [4, 0, 0], [0, 3, 0], [4, 3, 2], [1, 1, 5]]
    for F in ([[0, 1, 2]], [[0, 1, 2], [1, 3, 2]], [[0, 1, 2], [1, 3, 2], [0, 2, 4]]):
        for nr in (0, 1):
            evs.append({"op": "sample", "kind": "surface", "P": Ps, "F": F, "n": 20, "normals": nr, "mode": "uniform", "pcls": "%dfaces%s" % (len(F), "/normals" if nr else ""),
                        "npseed": rng.randrange(10 ** 6)})
            if nr:
                evs.append(dict(evs[-1], moved=1, pcls=evs[-1]["pcls"] + "/moved_after_normals_were_stored", npseed=rng.randrange(10 ** 6)))
    for order in (0, 1, 2, 3, 4):          # order 0: a single control point, still only defined on [0, 1]
        for d in (2, 3):
            for _ in range(12 if thorough else 2):
                Pc = [[rng.randint(-3, 3) for _ in range(d)] for _ in range(order + 1)]
                for t in ([0, 1], [1, 1], [1, 2], [1, 3], [3, 4], [5, 12], [-1, 4], [5, 4], [1000000001, 1000000000], [-1, 1000000000]):      # the last two: outside by 1e-9
                    evs.append({"op": "bezier_curve", "P": Pc, "t": t})
                for n in (2, 3, 7):
                    evs.append({"op": "as_polyline", "P": Pc, "n": n})
    for (a, b) in ((2, 2), (3, 2), (2, 4), (3, 3), (4, 4), (1, 4), (3, 1), (1, 1)):
        N = [[[rng.randint(-3, 3) for _ in range(3)] for _ in range(b)] for _ in range(a)]
        for u, v in itertools.product(([0, 1], [1, 2], [1, 1], [2, 3]), ([0, 1], [1, 4], [1, 1])):
            evs.append({"op": "bezier_patch", "N": N, "u": u, "v": v})
        evs.append({"op": "bezier_patch", "N": N, "u": [3, 2], "v": [1, 2]})
        evs.append({"op": "bezier_patch", "N": N, "u": [1, 2], "v": [5, 4]})
        evs.append({"op": "bezier_patch", "N": N, "u": [-1, 2], "v": [1, 2]})
        evs.append({"op": "bezier_patch", "N": N, "u": [1, 2], "v": [1000000001, 1000000000]})
        for n1, n2 in ((2, 2), (3, 3), (3, 4), (4, 2), (2, 5)) if min(a, b) > 1 else ():
            evs.append({"op": "as_surface", "N": N, "n1": n1, "n2": n2})
    return evs


def run(ctx):
    rng = random.Random(ctx.seed)
    thorough = ctx.tier == "thorough"
    ctx.model_check("C19_MC", "C19_MC.cfg", "de Casteljau = Bernstein, end points, bounds: all control polygons of 2..4 points in {0,1,2}^d, t = k/4")
    evs = _events(rng, thorough)
    cases = [{"id": "s-%d" % i, "given": {"kind": "sampling"}, "events": evs[i:i + 12]} for i in range(0, len(evs), 12)]
    obs = ctx.execute("c19", "exec_case", cases, chunksize=2)
    ctx.judge("C19_Trace", "C19_Trace.cfg", obs, "samplers-and-bezier", "c19", "exec_case", batch_events=80)
    ctx.exhaustive = False
    ctx.assumptions += [
        "NOT decided: that the share of samples per edge / face follows length / area (a statistical statement - outside TLA+/TLC)",
        "domain predicates per sample are evaluated by the harness with float comparisons (tolerance 1e-9 for 'on an edge' / 'in a face'); TLC demands that all hold and checks counts and exact radii",
        "Bezier values are exact rationals (integer control nets, parameters k/n); convex-hull membership is judged through the coordinate bounds",
    ]
