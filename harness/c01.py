"""C01 - surface connectivity answers agree with the face list.

Stage A  MeshEnum: every oriented manifold complex <= NV vertices / MaxF faces (oracle identities
         checked on each); C01_MC: the lazy-cache state graph (NoSpuriousFailure), one query-kind
         history per transition.
Stage B  every enumerated complex (renumbered / rotated / shuffled), library shapes and their
         mutilated variants are built as real SurfaceMesh objects; each query kind is issued with
         ALL its arguments, in TLC's cache-graph histories and in seeded permutations, sorting on/off.
Stage C  C01_Trace judges every answer list against MeshCore.
"""
import itertools
import random

from vf import meshes

CORNER_Q = ["next_corner", "previous_corner", "opposite_corner", "corner_to_face", "corner_to_half_edge"]
PAIR_Q = ["half_edge_to_corner", "direct_face", "direct_face_inds", "edge_to_faces", "edge_id", "is_edge_on_border"]
VERT_Q = ["vertex_to_vertices", "vertex_to_corners", "vertex_to_faces", "vertex_to_edges", "is_vertex_on_border"]
FACE_Q = ["face_to_vertices", "face_to_edges", "face_to_corners", "face_to_first_corner", "face_to_faces"]
LIST_Q = ["boundary_edges", "interior_edges", "boundary_vertices", "interior_vertices"]
OTHER_Q = ["opposite_face", "opposite_face_inds", "common_edge", "face_id", "other_edge_end",
           "vertex_to_corner_in_face", "in_face_index", "is_triangular", "is_quad"]
ALL_Q = CORNER_Q + PAIR_Q + VERT_Q + FACE_Q + LIST_Q + OTHER_Q
CLEARS = ["clear", "clear_boundary_data"]


def _n(x):
    if x is None:
        return -1
    if isinstance(x, (bool,)) or type(x).__name__ == "bool_":
        return 1 if x else 0
    return int(x)


def _l(xs):
    if xs is None:
        return [-1]
    return [_n(x) for x in xs]


def _pairs(rng, nv, faces):
    if nv <= 7:
        return [[u, v] for u in range(nv) for v in range(nv) if u != v]
    s = set()
    for f in faces:
        for i in range(len(f)):
            s.add((f[i], f[(i + 1) % len(f)]))
            s.add((f[(i + 1) % len(f)], f[i]))
    for _ in range(20):
        u, v = rng.randrange(nv), rng.randrange(nv)
        if u != v:
            s.add((u, v))
    return [list(p) for p in sorted(s)]


def query(m, op, nv, faces, rng):
    """-> (args, ret).  One library call per argument; None -> -1, bool -> 0/1."""
    c = m.connectivity
    nf = len(faces)
    nc = sum(len(f) for f in faces)
    if op in CORNER_Q:
        args = list(range(nc))
        if op == "corner_to_half_edge":
            return args, [_l(c.corner_to_half_edge(a)) for a in args]
        return args, [_n(getattr(c, op)(a)) for a in args]
    if op in PAIR_Q:
        args = _pairs(rng, nv, faces)
        if op == "direct_face_inds":
            return args, [_l(c.direct_face(u, v, True)) for u, v in args]
        if op == "edge_to_faces":
            return args, [_l(c.edge_to_faces(u, v)) for u, v in args]
        if op == "is_edge_on_border":
            return args, [_n(m.is_edge_on_border(u, v)) for u, v in args]
        return args, [_n(getattr(c, op)(u, v)) for u, v in args]
    if op in VERT_Q:
        args = list(range(nv))
        if op == "is_vertex_on_border":
            return args, [_n(m.is_vertex_on_border(v)) for v in args]
        return args, [_l(getattr(c, op)(v)) for v in args]
    if op in FACE_Q:
        args = list(range(nf))
        if op == "face_to_first_corner":
            return args, [_n(c.face_to_first_corner(f)) for f in args]
        return args, [_l(getattr(c, op)(f)) for f in args]
    if op in LIST_Q:
        return [], _l(getattr(m, op))
    if op in ("opposite_face", "opposite_face_inds"):
        prs = _pairs(rng, nv, faces)
        if len(prs) * nf > 400:
            prs = rng.sample(prs, max(1, 400 // max(1, nf)))
        args = [[u, v, f] for u, v in prs for f in range(nf)]
        if op == "opposite_face":
            return args, [_n(c.opposite_face(u, v, f)) for u, v, f in args]
        return args, [_l(c.opposite_face(u, v, f, True)) for u, v, f in args]
    if op == "common_edge":
        args = [[f, g] for f in range(nf) for g in range(nf) if f != g]
        if len(args) > 400:
            args = rng.sample(args, 400)
        return args, [_l(c.common_edge(f, g)) for f, g in args]
    if op == "face_id":
        args = []
        for f in faces:
            g = list(f)
            rng.shuffle(g)
            args.append(g)
        args.append([0, 1, nv])          # not a face: vertex nv does not exist
        if nv >= 4:
            args.append(sorted(rng.sample(range(nv), 3)))
        return args, [_n(c.face_id(*a)) for a in args]
    if op == "other_edge_end":
        args = []
        for e, (a, b) in enumerate(m.edges):
            args += [[e, int(a)], [e, int(b)], [e, (int(a) + 1) % nv]]
        return args, [_n(c.other_edge_end(e, v)) for e, v in args]
    if op == "vertex_to_corner_in_face":
        args = [[v, f] for v in range(nv) for f in range(nf)]
        if len(args) > 600:
            args = rng.sample(args, 600)
        return args, [_n(c.vertex_to_corner_in_face(v, f)) for v, f in args]
    if op == "in_face_index":
        args = [[f, v] for v in range(nv) for f in range(nf)]
        if len(args) > 600:
            args = rng.sample(args, 600)
        return args, [_n(c.in_face_index(f, v)) for f, v in args]
    if op in ("is_triangular", "is_quad"):
        return [], _n(getattr(m, op)())
    if op == "clear":
        c.clear()
        return [], []
    if op == "clear_boundary_data":
        m.clear_boundary_data()
        return [], []
    raise ValueError("unknown query kind " + op)


def exec_case(case):
    import mouette as M
    g = case["given"]
    nv, faces = g["nv"], g["F"]
    rng = random.Random(hash((case["id"], nv, len(faces))) & 0xFFFFFFF)
    old = M.config.sort_neighborhoods
    M.config.sort_neighborhoods = bool(g["sorted"])
    try:
        declared = None
        if g.get("declare", 0):
            # some sides of the faces are declared as edges beforehand, in another order and direction than the faces list them
            sides = sorted({(min(f[i], f[(i + 1) % len(f)]), max(f[i], f[(i + 1) % len(f)])) for f in faces for i in range(len(f))})
            dr = random.Random(len(sides) * 131 + nv)
            dr.shuffle(sides)
            declared = [(b, a) if dr.random() < 0.5 else (a, b) for a, b in sides[:max(1, len(sides) // 2)]]
        m = meshes.build_surface(nv, faces, edges=declared)
        given = dict(g)
        given["E"] = [[int(a), int(b)] for a, b in m.edges]
        events = []
        for ev in case["events"]:
            op = ev["op"]
            e = {"op": op, "args": [], "ret": [], "exc": ""}
            try:
                e["args"], e["ret"] = query(m, op, nv, faces, random.Random(rng.random()))
            except Exception as ex:
                if op not in ALL_Q and op not in CLEARS:
                    raise
                e["exc"] = type(ex).__name__
            events.append(e)
    finally:
        M.config.sort_neighborhoods = old
    return {"id": case["id"], "given": given, "events": events}


def _perm_history(rng, with_clears=True):
    qs = list(ALL_Q)
    rng.shuffle(qs)
    if with_clears:
        for cl in CLEARS:
            qs.insert(rng.randrange(len(qs)), cl)
        qs += rng.sample(ALL_Q, 6)
    return [{"op": q} for q in qs]


def run(ctx):
    rng = random.Random(ctx.seed)
    thorough = ctx.tier == "thorough"
    r_enum = ctx.model_check("MeshEnum", "MeshEnum_thorough.cfg" if thorough else "MeshEnum.cfg",
                             "all oriented complexes within the bounds; oracle identities of MeshCore")
    r_mc = ctx.model_check("C01_MC", "C01_MC.cfg", "lazy-cache state graph: NoSpuriousFailure")
    if thorough:
        ctx.model_check("C01_MC", "C01_MC_asbuilt.cfg", "as-built table (no guard in half_edge_to_corner) must fail",
                        expect_violation="NoSpuriousFailure")
    enum = [x for x in r_enum.records if x.get("k") == "M"]
    hists = [x["h"] for x in r_mc.records if x.get("k") == "H" and x["h"]]
    lib = meshes.library_surfaces(rng, big=thorough)
    cases = []
    # E: every enumerated complex, one permuted full history, random symmetry, sorting on (1 in 4: off)
    if not thorough and len(enum) > 1500:
        enum = rng.sample(enum, 1500)
    for i, x in enumerate(enum):
        nv, F = meshes.permute_surface(rng, x["nv"], [list(f) for f in x["F"]])
        cases.append({"id": "E-%d" % i, "given": {"nv": nv, "F": F, "sorted": 0 if i % 4 == 3 else 1, "family": "E", "declare": 1 if i % 3 == 1 else 0},
                      "events": _perm_history(rng, with_clears=(i % 2 == 0))})
    # cover: every transition of the cache graph on rotating small meshes (first query on a FRESH mesh)
    pool = [x for x in enum if len(x["F"]) >= 3][:50] + [{"nv": nv, "F": F} for _, nv, F in lib if len(F) <= 14]
    for i, h in enumerate(hists):
        x = pool[i % len(pool)]
        cases.append({"id": "cover-%d" % i, "given": {"nv": x["nv"], "F": [list(f) for f in x["F"]], "sorted": 1, "family": "cache-cover"},
                      "events": [{"op": q} for q in h]})
    # L: library shapes, several histories each, both sorting modes
    for j, (name, nv, F) in enumerate(lib):
        for rep in range(4 if thorough else 2):
            nv2, F2 = meshes.permute_surface(rng, nv, F, renumber=(rep > 0), rotate=(rep > 0), shuffle=(rep > 1))
            cases.append({"id": "L-%s-%d" % (name, rep), "given": {"nv": nv2, "F": F2, "sorted": 0 if rep == 1 else 1, "family": "L"},
                          "events": _perm_history(rng)})
    obs = ctx.execute("c01", "exec_case", cases, chunksize=16)
    for fam, pref in (("E", "E-"), ("cache-cover", "cover-"), ("L", "L-")):
        ctx.judge("C01_Trace", "C01_Trace.cfg", [c for c in obs if c["id"].startswith(pref)], fam, "c01", "exec_case",
                  batch_events=1500)
    ctx.exhaustive = False
    ctx.assumptions += [
        "family E is exhaustive up to the MeshEnum bounds (cfg); the harness adds one random renumbering/rotation/face order per complex",
        "rings are accepted as cyclic rotations in either direction, provided one direction is used for the whole mesh",
        "cases that are not oriented vertex-manifold, or whose edge list is not exactly the sides of the faces (C02), are skipped by the specification",
        "every query kind is issued with all its arguments (pairs: all ordered pairs up to 7 vertices, else all half-edges, their reverses and random non-edges)",
    ]
