"""C15 - border and feature extraction are exact.

Stage A  C15_MC: on every enumerated oriented manifold complex and from every border vertex the
         library's walk (first border neighbour in rotational order that is not the vertex just left)
         returns exactly the border loop of its start; with unsorted neighbourhoods it does not.
Stage B  border: enumerated complexes, library shapes with several loops / components, meshes with interior
         chords between border vertices, every start.  features: lattice "roof" strips whose dihedral
         sits on either side of both thresholds, random lattice triangle surfaces, declared hard edges,
         every detector option.
Stage C  C15_Trace: border loops via MeshCore, feature set by integer dihedral tests.
"""
import random

from vf import meshes


def build(g):
    return meshes.build_surface(g["n"], g["F"], coords=g["P"], edges=g.get("declared") or None)


def exec_case(case):
    import mouette as M
    g = dict(case["given"])
    m = build(g)
    g["E"] = [[int(a), int(b)] for a, b in m.edges]
    g["hard"] = []
    if m.edges.has_attribute("hard_edges"):
        h = m.edges.get_attribute("hard_edges")
        g["hard"] = [i for i in range(len(m.edges)) if bool(h[i])]
    events = []
    for ev in case["events"]:
        e = dict(ev)
        e["exc"] = ""
        try:
            if ev["op"] == "border_cycle":
                e["vs"], e["es"] = [], []
                e["start"] = ev["start"] % g["n"]
                r = M.processing.extract_border_cycle(m, e["start"])
                if isinstance(r, tuple):
                    e["vs"], e["es"] = [int(v) for v in r[0]], [int(x) if x is not None else -1 for x in r[1]]
            elif ev["op"] == "border_cycle_all":
                e["cycles"] = [[int(v) for v in c] for c in M.processing.extract_border_cycle_all(m)]
            elif ev["op"] == "boundary_of_surface":
                e["map"], e["eb"], e["pb"], e["nvb"] = [], [], [], 0
                pl, mp = M.processing.extract_boundary_of_surface(m)
                e["map"] = [[int(k), int(v)] for k, v in sorted(mp.items())]
                e["eb"] = [[int(a), int(b)] for a, b in pl.edges]
                e["pb"] = [[int(round(c)) for c in p] for p in pl.vertices]
                e["nvb"] = len(pl.vertices)
            elif ev["op"] == "features":
                e.update({"fe": [], "fv": [], "deg": [], "local": [], "vte": [], "corners": []})
                det = M.processing.FeatureEdgeDetector(only_border=bool(ev["only_border"]), flag_corners=bool(ev["flag_corners"]),
                                                       corner_order=ev["corner_order"], compute_feature_graph=bool(ev.get("graph", 0)), verbose=False)
                warm = ev.get("warm", 0)
                if warm == 1:
                    det.run(m)                     # the same detector object used twice on the same mesh
                elif warm == 2:
                    # ... or first on another mesh: the same faces folded differently (other edges are sharp there)
                    wr = random.Random(len(g["F"]) * 31 + g["n"])
                    decoy = meshes.build_surface(g["n"], g["F"], coords=[[p[0], p[1], p[2] + wr.randint(-6, 6)] for p in g["P"]], edges=g.get("declared") or None)
                    try:
                        det.run(decoy)
                    except Exception:
                        pass                       # a degenerate decoy is of no interest
                det.run(m)
                fv = sorted(int(v) for v in det.feature_vertices)
                e["fe"] = sorted(int(x) for x in det.feature_edges)
                e["fv"] = fv
                e["deg"] = [[v, int(det.feature_degrees[v])] for v in fv]
                e["local"] = [[v, [int(i) for i in det.local_feat_edges.get(v, [])]] for v in fv]
                e["vte"] = [[v, [int(x) for x in m.connectivity.vertex_to_edges(v)]] for v in fv]
                e["corners"] = [[v, int(det.corners[v])] for v in fv] if ev["flag_corners"] else [[v, 0] for v in fv]
            else:
                raise ValueError(ev["op"])
        except Exception as ex:
            if ev["op"] not in ("border_cycle", "border_cycle_all", "boundary_of_surface", "features"):
                raise
            e["exc"] = type(ex).__name__ + ":" + str(ex)[:60]
        events.append(e)
    return {"id": case["id"], "given": g, "events": events}


def roof(a, b, h, ny, sy):
    """two planar strips meeting along a ridge: normals (h,0,a) and (-h,0,b)"""
    P, F = [], []
    for j in range(ny + 1):
        P += [[-a, j * sy, 0], [0, j * sy, h], [b, j * sy, 0]]
    for j in range(ny):
        l0, r0, q0 = 3 * j, 3 * j + 1, 3 * j + 2
        l1, r1, q1 = l0 + 3, r0 + 3, q0 + 3
        F += [[l0, r0, r1], [l0, r1, l1], [r0, q0, q1], [r0, q1, r1]]
    ridge = [[3 * j + 1, 3 * j + 4] for j in range(ny)]
    return P, F, ridge


def chord_disk():
    """a disk with interior edges that join two border vertices (chords)"""
    P = [[0, 0, 0], [2, 0, 0], [4, 0, 0], [4, 2, 0], [2, 2, 0], [0, 2, 0]]
    F = [[0, 1, 5], [1, 4, 5], [1, 2, 4], [2, 3, 4]]
    return P, F


def run(ctx):
    rng = random.Random(ctx.seed)
    thorough = ctx.tier == "thorough"
    ctx.model_check("C15_MC", "C15_MC.cfg", "border walk from every border vertex of every enumerated complex returns the loop of its start")
    if thorough:
        ctx.model_check("C15_MC", "C15_MC_unsorted.cfg", "with unsorted neighbourhoods the walk fails (the extraction relies on sorting)", expect_violation="WalkIsTheLoop")
    r_enum = ctx.model_check("MeshEnum", "MeshEnum.cfg", "all oriented manifold complexes (<= 5 vertices, <= 4 faces)")
    enum = [x for x in r_enum.records if x.get("k") == "M"]
    cases = []

    def lat(n, hi=4):
        seen, out = set(), []
        while len(out) < n:
            p = (rng.randint(0, hi), rng.randint(0, hi), rng.randint(0, hi))
            if p not in seen:
                seen.add(p)
                out.append(list(p))
        return out

    def border_events(n):
        return [{"op": "border_cycle", "start": s} for s in range(n)] + [{"op": "border_cycle_all"}, {"op": "boundary_of_surface"}]

    def feat_events():
        evs = []
        for ob in (0, 1):
            for fc, co in ((1, 4), (1, 6), (0, 4), (1, 3)):
                evs.append({"op": "features", "only_border": ob, "flag_corners": fc, "corner_order": co, "graph": rng.randint(0, 1), "warm": rng.choice([0, 0, 1, 2])})
        return evs
    pick = enum if thorough else rng.sample(enum, 400)
    for i, x in enumerate(pick):
        nv, F = meshes.permute_surface(rng, x["nv"], [list(f) for f in x["F"]])
        tri = all(len(f) == 3 for f in F)
        cases.append({"id": "E-%d" % i, "given": {"n": nv, "F": F, "P": lat(nv), "family": "E" + ("" if tri else "-polygons")},
                      "events": border_events(nv) + (feat_events()[:3] if tri else [])})
    for name, nv, F in meshes.library_surfaces(rng, big=thorough):
        if not meshes.is_manifold(nv, F) or len(F) > 80:
            continue
        tri = all(len(f) == 3 for f in F)
        cases.append({"id": "L-%s" % name, "given": {"n": nv, "F": F, "P": lat(nv, 4), "family": "L"},
                      "events": border_events(nv) + (feat_events()[:2] if tri and nv <= 30 else [])})
    P, F = chord_disk()
    cases.append({"id": "chords", "given": {"n": len(P), "F": F, "P": P, "family": "chords"}, "events": border_events(len(P)) + feat_events()})
    # roofs: dot of unit normals = (ab - h^2) / sqrt((h^2+a^2)(h^2+b^2)) on both sides of 1/2 and 4/5
    k = 0
    for a in range(1, 5):
        for b in range(1, 5):
            for h in range(1, 5):
                if not thorough and (a + 2 * b + 3 * h) % 3 != 0:
                    continue
                for declare in (0, 1):
                    Pr, Fr, ridge = roof(a, b, h, rng.randint(1, 2), rng.choice([1, 2]))
                    cases.append({"id": "roof-%d" % k, "given": {"n": len(Pr), "F": Fr, "P": Pr, "declared": ridge if declare else [], "family": "roof"},
                                  "events": feat_events() + border_events(len(Pr))[-2:]})
                    k += 1
    obs = ctx.execute("c15", "exec_case", cases, chunksize=8)
    ctx.judge("C15_Trace", "C15_Trace.cfg", obs, "border-and-features", "c15", "exec_case", batch_events=600)
    ctx.exhaustive = False
    ctx.assumptions += [
        "neighbourhood sorting is on (the library's default); with sorting off the walk is not exact (shown by the model) - the switch is not part of the statement's quantifier",
        "feature thresholds are tested by integer arithmetic on lattice meshes (triangles, first-three-vertex normals); cases exactly on a threshold or with a degenerate face are skipped",
        "corner orders are judged when the angle sum is an exact multiple of pi/4 and not on a rounding tie",
        "the index map of extract_boundary_of_surface is accepted in either direction",
    ]
