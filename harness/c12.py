"""C12 - geometric primitives and boxes obey their algebra, with no side effects.

Stage A  C12_Prim_MC: the laws of the statement on the specification's own definitions for every
         pair of integer boxes / every point (dimension 1-2);  Rotations.tla ASSUMEs (isometry, axis
         fixed, inverses, additivity);  C12_Effects_MC: effect system with write sets (NoSideEffects).
Stage B  spec -> code: every transition of the effects model on real objects; exhaustive lattice
         arguments for every primitive.  code -> spec: random call sequences over ~60 API calls,
         including degenerate arguments that make calls raise.
Stage C  C12_Trace: exact results (Rat) and before/after digests of all tracked objects + np.geterr().
"""
import itertools
import math
import random
from fractions import Fraction

import numpy as np

DEFAULT_ERR = dict(divide="warn", over="warn", under="ignore", invalid="warn")
ERR_KEYS = ["divide", "over", "under", "invalid"]


def rat(x, lim=4096):
    x = float(x)
    if not math.isfinite(x):
        return [0, 0]
    fr = Fraction(x).limit_denominator(lim)
    if abs(float(fr) - x) > 1e-9 * (1 + abs(x)):
        return [0, 0]
    return [fr.numerator, fr.denominator]


def rseq(v):
    return [rat(x) for x in np.ravel(v)]


def sgn(x, eps=1e-12):
    return 1 if x > eps else (-1 if x < -eps else 0)


# ------------------------------------------------------------------------------- effects
class Registry:
    def __init__(self):
        self.obj, self.kind, self.intern = {}, {}, {}

    def add(self, name, o, kind):
        self.obj[name] = o
        self.kind[name] = kind

    def digest(self, name):
        o, k = self.obj[name], self.kind[name]
        if k == "array":
            b = (str(o.dtype) + str(o.shape)).encode() + np.ascontiguousarray(o).tobytes()
        elif k == "box":
            b = np.asarray(o.mini, dtype=float).tobytes() + b"|" + np.asarray(o.maxi, dtype=float).tobytes()
        else:
            b = b"".join(np.asarray(v, dtype=float).tobytes() for v in o.vertices) + repr(list(o.faces)).encode()
        return self.intern.setdefault(b, len(self.intern) + 1)

    def snapshot(self):
        return {n: self.digest(n) for n in self.obj}


def _fresh_registry():
    import mouette as M
    from mouette.geometry import Vec, AABB
    reg = Registry()
    reg.add("z", np.array([0., 0., 0.]), "array")
    reg.add("a", np.array([1., 0., 0.]), "array")
    reg.add("b", np.array([0., 2., 0.]), "array")
    reg.add("c", np.array([1., 1., 1.]), "array")
    reg.add("d", np.array([2., 0., 0.]), "array")          # parallel to a
    reg.add("v", Vec(3., 4., 0.), "array")
    reg.add("p2", np.array([1., 2.]), "array")
    reg.add("q2", np.array([0., 0.]), "array")
    reg.add("r2", np.array([2., 4.]), "array")
    reg.add("m3", np.array([[1., 2, 0], [0, 1, 3], [4, 0, 1]]), "array")
    reg.add("rot", np.array([[0., -1, 0], [1, 0, 0], [0, 0, 1]]), "array")
    reg.add("pts", np.array([[0., 0, 0], [1, 2, 3], [-1, 0.5, 2]]), "array")
    reg.add("lo", np.array([0., 0., 0.]), "array")
    reg.add("hi", np.array([1., 2., 3.]), "array")
    reg.add("pad3", np.array([0.5, 0., 1.]), "array")
    reg.add("padneg", np.array([0.5, -2., 1.]), "array")        # a negative entry (documented as ignored)
    reg.add("padnegv", Vec(-1., 0.25, -3.), "array")
    reg.add("B0", AABB(np.array([-1., -1., -1.]), np.array([0.5, 0.5, 0.5])), "box")
    reg.add("M1", M.procedural.unit_grid(2, 2), "mesh")
    reg.add("M2", M.procedural.unit_grid(2, 3), "mesh")
    return reg


def _catalogue():
    """name -> (function(reg, *arg objects), argument names, name of a box/mesh it creates or None)"""
    import mouette as M
    from mouette.geometry import Vec, AABB
    from mouette import geometry as G
    from mouette.geometry import transform as T
    from mouette.utils import maths
    from scipy.spatial.transform import Rotation
    cat = {}

    def add(name, fn, args):
        cat[name] = (fn, args)
    for which in ("l2", "l1", "linf"):
        add("geom.norm/" + which, lambda r, x, w=which: G.norm(x, w), ["c"])
        add("geom.distance/" + which, lambda r, x, y, w=which: G.distance(x, y, w), ["a", "b"])
        add("AABB.distance/" + which, lambda r, bx, x, w=which: bx.distance(x, w), ["B0", "c"])
    add("geom.dot", lambda r, x, y: G.dot(x, y), ["a", "c"])
    add("geom.cross", lambda r, x, y: G.cross(x, y), ["a", "c"])
    add("geom.cotan", lambda r, x, y, z: G.cotan(x, y, z), ["a", "b", "c"])
    add("geom.cotan/degenerate", lambda r, x, y, z: G.cotan(x, y, z), ["a", "a", "c"])
    add("geom.cotan/collinear", lambda r, x, y, z: G.cotan(x, y, z), ["a", "z", "d"])
    add("geom.angle_3pts", lambda r, x, y, z: G.angle_3pts(x, y, z), ["a", "b", "c"])
    add("geom.signed_angle_2vec3D", lambda r, x, y, z: G.signed_angle_2vec3D(Vec(x), Vec(y), Vec(z)), ["a", "b", "c"])
    add("geom.signed_angle_3pts", lambda r, x, y, z, n: G.signed_angle_3pts(Vec(x), Vec(y), Vec(z), Vec(n)), ["a", "b", "c", "c"])
    add("geom.angle_2vec2D", lambda r, x, y: G.angle_2vec2D(x, y), ["p2", "r2"])
    add("geom.angle_2vec3D", lambda r, x, y: G.angle_2vec3D(x, y), ["a", "c"])
    add("geom.face_basis", lambda r, x, y, z: G.face_basis(x, y, z), ["z", "a", "b"])
    add("geom.face_basis/degenerate", lambda r, x, y, z: G.face_basis(x, y, z), ["z", "a", "d"])
    add("geom.triangle_area", lambda r, x, y, z: G.triangle_area(Vec(x), Vec(y), Vec(z)), ["a", "b", "c"])
    add("geom.triangle_area_2D", lambda r, x, y, z: G.triangle_area_2D(x, y, z), ["p2", "q2", "r2"])
    add("geom.quad_area", lambda r, x, y, z, w: G.quad_area(Vec(x), Vec(y), Vec(z), Vec(w)), ["z", "a", "c", "b"])
    add("geom.det_2x2", lambda r, x, y: G.det_2x2(x, y), ["p2", "r2"])
    add("geom.det_3x3/matrix", lambda r, m: G.det_3x3(m), ["m3"])
    add("geom.det_3x3/columns", lambda r, x, y, z: G.det_3x3(x, y, z), ["a", "b", "c"])
    add("geom.intersect_2lines2D", lambda r, p, d1, q, d2: G.intersect_2lines2D(Vec(p), Vec(d1), Vec(q), Vec(d2)), ["p2", "r2", "q2", "p2"])
    add("geom.circumcenter", lambda r, x, y, z: G.circumcenter(Vec(x), Vec(y), Vec(z)), ["a", "b", "c"])
    add("geom.circumcenter/degenerate", lambda r, x, y, z: G.circumcenter(Vec(x), Vec(y), Vec(z)), ["z", "a", "d"])
    add("geom.aspect_ratio", lambda r, x, y, z: G.aspect_ratio(x, y, z), ["a", "b", "c"])
    add("geom.distance_to_segment2D", lambda r, p, x, y: G.distance_to_segment2D(p, x, y), ["p2", "q2", "r2"])
    add("geom.project_to_plane", lambda r, p, n, o: G.project_to_plane(p, n, o), ["c", "a", "b"])
    add("rot.rotate_2d", lambda r, p: G.rotate_2d(p, 0.7), ["p2"])
    add("rot.rotate_around_axis", lambda r, x, ax: G.rotate_around_axis(x, ax, 0.7), ["c", "b"])
    add("rot.rotate_around_axis/zero_axis", lambda r, x, ax: G.rotate_around_axis(x, ax, 0.7), ["c", "z"])
    add("rot.axis_rot_from_z", lambda r, x: G.rotations.axis_rot_from_z(Vec(x)), ["c"])
    add("Vec.norm", lambda r, x: Vec.norm(x), ["v"])
    add("Vec.dot", lambda r, x, y: x.dot(y), ["v", "c"])
    add("Vec.outer", lambda r, x, y: x.outer(y), ["v", "c"])
    add("Vec.normalized", lambda r, x: Vec.normalized(x), ["c"])
    add("Vec.normalized/zero", lambda r, x: Vec.normalized(x), ["z"])
    add("Vec.normalize", lambda r, x: x.normalize(), ["v"])
    add("AABB", lambda r, lo, hi: AABB(lo, hi), ["lo", "hi"])
    add("AABB/from_box", lambda r, bx: AABB(bx.mini, bx.maxi), ["B0"])
    add("AABB.of_points", lambda r, p: AABB.of_points(p), ["pts"])
    add("AABB.of_mesh", lambda r, m: AABB.of_mesh(m), ["M1"])
    add("AABB.intersection", lambda r, x, y: AABB.intersection(x, y), ["B0", "B0"])
    add("AABB.union", lambda r, x, y: x | y, ["B0", "B0"])
    add("AABB.do_intersect", lambda r, x, y: AABB.do_intersect(x, y), ["B0", "B0"])
    add("AABB.pad", lambda r, bx: bx.pad(1.), ["B0"])
    add("AABB.pad/vector", lambda r, bx, p: bx.pad(p), ["B0", "pad3"])
    add("AABB.pad/wrong_dim", lambda r, bx, p: bx.pad(p), ["B0", "p2"])
    add("AABB.pad/vector_with_negative_entries", lambda r, bx, p: bx.pad(p), ["B0", "padneg"])
    add("AABB.pad/vec_with_negative_entries", lambda r, bx, p: bx.pad(p), ["B0", "padnegv"])
    add("AABB.contains_point", lambda r, bx, x: bx.contains_point(x), ["B0", "c"])
    add("AABB.contains_point/wrong_dim", lambda r, bx, x: bx.contains_point(x), ["B0", "p2"])
    add("AABB.project", lambda r, bx, x: bx.project(x), ["B0", "c"])
    add("AABB.project/inside", lambda r, bx, x: bx.project(x), ["B0", "z"])
    add("AABB.is_empty", lambda r, bx: bx.is_empty(), ["B0"])
    add("AABB.span", lambda r, bx: bx.span, ["B0"])
    add("AABB.center", lambda r, bx: bx.center, ["B0"])
    add("maths.roots", lambda r: maths.roots(complex(0, 2), 4), [])
    add("maths.principal_angle", lambda r: maths.principal_angle(7.5), [])
    add("maths.solve_quadratic", lambda r: maths.solve_quadratic(1., -3., 2.), [])
    add("transform.translate", lambda r, m, t: T.translate(m, Vec(t)), ["M1", "c"])
    add("transform.scale", lambda r, m, o: T.scale(m, 2., Vec(o)), ["M1", "c"])
    add("transform.rotate", lambda r, m, R: T.rotate(m, R), ["M1", "rot"])
    add("transform.rotate/with_origin", lambda r, m, R, o: T.rotate(m, R, Vec(o)), ["M1", "rot", "c"])
    add("transform.normalize", lambda r, m: T.normalize(m), ["M1"])
    add("transform.translate_to_origin", lambda r, m: T.translate_to_origin(m), ["M1"])
    add("transform.scale_xyz", lambda r, m: T.scale_xyz(m, 2., 1., 3.), ["M1"])
    add("transform.flatten", lambda r, m: T.flatten(m, 2), ["M1"])
    return cat


def exec_effects(case):
    from mouette.geometry import AABB
    np.seterr(**DEFAULT_ERR)
    try:
        reg = _fresh_registry()
        cat = _catalogue()
        events = []
        nbox = 0
        for ev in case["events"]:
            call = ev["op"]
            args = list(ev.get("args", []))
            if call == "user_seterr":
                if ev["mode"] == "default":
                    np.seterr(**DEFAULT_ERR)
                else:
                    np.seterr(all=ev["mode"])
                events.append({"op": "user_seterr", "args": [], "exc": "", "before": {}, "after": {}, "kinds": {},
                               "eb": [], "ea": []})
                continue
            fn, default_args = cat[call]
            if not args:
                args = list(default_args)
            args = [a for a in args]
            if any(a not in reg.obj for a in args):
                continue                      # refers to a box that was never created: drop the call
            before, eb = reg.snapshot(), [np.geterr()[k] for k in ERR_KEYS]
            exc, out = "", None
            try:
                out = fn(reg, *[reg.obj[a] for a in args])
            except Exception as ex:
                exc = type(ex).__name__
            after, ea = {n: reg.digest(n) for n in before}, [np.geterr()[k] for k in ERR_KEYS]
            if isinstance(out, AABB) and nbox < 4:
                nbox += 1
                reg.add("B%d" % nbox, out, "box")
            events.append({"op": call.split("/")[0], "variant": call, "args": args, "exc": exc, "before": before,
                           "after": after, "kinds": dict(reg.kind), "eb": eb, "ea": ea})
        return {"id": case["id"], "given": case["given"], "events": events}
    finally:
        np.seterr(**DEFAULT_ERR)


def _effects_from_model(h):
    """C12_Effects_MC action -> concrete call on the registry"""
    evs, nbox = [], 0
    for a in h:
        op = a["op"]
        if op == "AABB":
            evs.append({"op": "AABB", "args": [{"a": "lo", "b": "hi"}[a["x"]], {"a": "lo", "b": "hi"}[a["y"]]]})
            nbox += 1
        elif op == "AABB_from_box":
            evs.append({"op": "AABB/from_box", "args": ["B%d" % a["k"]]})
            nbox += 1
        elif op == "pad":
            evs.append({"op": "AABB.pad", "args": ["B%d" % a["k"]]})
        elif op == "normalized":
            evs.append({"op": "Vec.normalized/zero" if a["raises"] else "Vec.normalized"})
        elif op == "user_seterr":
            evs.append({"op": "user_seterr", "mode": a["mode"]})
        else:
            evs.append({"op": "geom.cross"})
    return evs


# ------------------------------------------------------------------------------- primitives
ROT_ANGLE = {1: ("x", math.pi / 2), 2: ("x", -math.pi / 2), 3: ("y", math.pi / 2), 4: ("y", -math.pi / 2),
             5: ("z", math.pi / 2), 6: ("z", -math.pi / 2), 7: ("z", math.atan2(4, 3)), 8: ("z", -math.atan2(4, 3))}
AXIS = {"x": [1., 0, 0], "y": [0, 1., 0], "z": [0, 0, 1.]}


def _angle_rec(th, extra=None):
    r = {"in01": 1 if 0.0 <= th <= math.pi else 0, "c2": rat(math.cos(th) ** 2), "sc": sgn(math.cos(th), 1e-9)}
    if extra:
        r.update(extra)
    return r


def exec_prim(case):
    from mouette.geometry import Vec, AABB
    from mouette import geometry as G
    from mouette.utils import maths
    np.seterr(**DEFAULT_ERR)
    events = []
    for ev in case["events"]:
        op, a = ev["op"], ev["a"]
        e = {"op": op, "a": a, "cls": ev.get("cls", op), "exc": "", "ret": 0}
        f = lambda x: np.array(x, dtype=float)
        try:
            if op.startswith("box."):
                if op in ("box.union", "box.intersection", "box.do_intersect"):
                    b1, b2 = AABB(f(a[0][0]), f(a[0][1])), AABB(f(a[1][0]), f(a[1][1]))
                    if op == "box.union":
                        u = AABB.union(b1, b2)
                        e["ret"] = [rseq(u.mini), rseq(u.maxi)]
                    elif op == "box.intersection":
                        u = AABB.intersection(b1, b2)
                        e["ret"] = [rseq(u.mini), rseq(u.maxi)]
                    else:
                        e["ret"] = 1 if AABB.do_intersect(b1, b2) else 0
                elif op == "box.of_points":
                    u = AABB.of_points(f(a))
                    e["ret"] = [rseq(u.mini), rseq(u.maxi)]
                else:
                    bx = AABB(f(a[0]), f(a[1]))
                    if op == "box.contains":
                        e["ret"] = 1 if bx.contains_point(f(a[2])) else 0
                    elif op == "box.project":
                        e["ret"] = rseq(bx.project(f(a[2])))
                    elif op == "box.distance_l1":
                        e["ret"] = rat(bx.distance(f(a[2]), "l1"))
                    elif op == "box.distance_linf":
                        e["ret"] = rat(bx.distance(f(a[2]), "linf"))
                    elif op == "box.distance_l2":
                        e["ret"] = rat(bx.distance(f(a[2]), "l2") ** 2)
                    elif op == "box.is_empty":
                        e["ret"] = 1 if bx.is_empty() else 0
                    elif op == "box.span":
                        e["ret"] = rseq(bx.span)
                    elif op == "box.center":
                        e["ret"] = rseq(bx.center)
                    else:
                        raise KeyError(op)
            elif op == "cross":
                e["ret"] = rseq(G.cross(f(a[0]), f(a[1])))
            elif op == "dot":
                e["ret"] = rat(G.dot(f(a[0]), f(a[1])))
            elif op == "det_2x2":
                e["ret"] = rat(G.det_2x2(f(a[0]), f(a[1])) if ev.get("form", 0) == 0 else G.det_2x2(complex(*a[0]), complex(*a[1])))
            elif op == "det_3x3":
                # Sarrus on rows = on columns (transpose): both call forms
                e["ret"] = rat(G.det_3x3(f(a)) if ev.get("form", 0) == 0 else G.det_3x3(f(a[0]), f(a[1]), f(a[2])))
            elif op in ("norm_l2", "norm_l1", "norm_linf"):
                w = op.split("_")[1]
                v = G.norm(f(a), w) if ev.get("form", 0) == 0 else Vec(f(a)).norm(w)
                e["ret"] = rat(v ** 2 if w == "l2" else v)
            elif op == "distance_l2":
                e["ret"] = rat(G.distance(f(a[0]), f(a[1])) ** 2)
            elif op == "triangle_area":
                e["ret"] = rat(G.triangle_area(Vec(f(a[0])), Vec(f(a[1])), Vec(f(a[2]))) ** 2)
            elif op == "angle_3pts":
                e["ret"] = [_angle_rec(G.angle_3pts(f(a[0]), f(a[1]), f(a[2]))), _angle_rec(G.angle_3pts(f(a[2]), f(a[1]), f(a[0])))]
            elif op == "angle_2vec3D":
                e["ret"] = _angle_rec(G.angle_2vec3D(Vec(f(a[0])), Vec(f(a[1]))))
            elif op == "cotan":
                ct = G.cotan(f(a[0]), f(a[1]), f(a[2]))
                e["ret"] = {"c2": rat(ct ** 2), "sg": sgn(ct, 1e-9)}
            elif op == "signed_angle":
                t1 = G.signed_angle_2vec3D(Vec(f(a[0])), Vec(f(a[1])), Vec(f(a[2])))
                t2 = G.signed_angle_2vec3D(Vec(f(a[1])), Vec(f(a[0])), Vec(f(a[2])))
                e["ret"] = [{"c2": rat(math.cos(t) ** 2), "sc": sgn(math.cos(t), 1e-9), "sg": sgn(t, 1e-12)} for t in (t1, t2)]
            elif op == "circumcenter":
                e["ret"] = rseq(G.circumcenter(Vec(f(a[0])), Vec(f(a[1])), Vec(f(a[2]))))
            elif op == "principal_angle":
                e["ret"] = rat(maths.principal_angle(a[0] * math.pi / a[1]) / math.pi, 64)
            elif op == "angle_diff":
                e["ret"] = rat(maths.angle_diff(a[0] * math.pi / a[1], 0.) / math.pi, 64)
            elif op == "roots":
                import cmath
                c = cmath.rect(ev.get("mag", 1.0), a[0] * math.pi / a[1])
                if ev.get("prefull", 0):
                    maths.roots(c, a[2], normalize=False)          # history: the full (non-unit) roots of the same number were asked for just before
                e["ret"] = [[rat(cmath.phase(r) / math.pi, 256), rat(abs(r) ** 2)] for r in maths.roots(c, a[2])]
            elif op == "rotate_around_axis":
                ax, ang = ROT_ANGLE[a[1]]
                axis = np.array(AXIS[ax]) * ev.get("axis_scale", 1.0)
                inp = a[0]
                how = ev.get("as", "vec")            # the rotated vector may be given with integer entries (a list, an integer array, an integer Vec)
                arg = Vec(f(inp)) if how == "vec" else (list(inp) if how == "list" else (np.array(inp, dtype=int) if how == "intarray" else Vec(*[int(x) for x in inp])))
                e["ret"] = rseq(G.rotate_around_axis(arg, Vec(axis), ang))
            elif op == "rotate_2d":
                _, ang = ROT_ANGLE[a[1]]
                e["ret"] = rseq(G.rotate_2d(Vec(f(a[0])), ang))
            else:
                raise KeyError(op)
        except KeyError:
            raise
        except Exception as ex:
            e["exc"] = type(ex).__name__
        events.append(e)
    np.seterr(**DEFAULT_ERR)
    return {"id": case["id"], "given": case["given"], "events": events}


def _prim_cases(rng, thorough):
    evs = []
    R3 = [-1, 0, 1, 2]
    # boxes: exhaustive dimension 1 and 2 over {0,1,2} incl. empty/point boxes; sampled dimension 3
    def boxes(d, vals):
        for lo in itertools.product(vals, repeat=d):
            for hi in itertools.product(vals, repeat=d):
                yield [list(lo), list(hi)]
    b1 = list(boxes(1, [-1, 0, 1, 2]))
    b2 = list(boxes(2, [0, 1, 2]))
    b3 = [[[rng.randint(-1, 1) for _ in range(3)], [rng.randint(0, 2) for _ in range(3)]] for _ in range(40)]
    for bs, d in ((b1, 1), (b2, 2), (b3, 3)):
        vals = [-2, -1, 0, 1, 2, 3]
        pts = list(itertools.product(vals, repeat=d)) if d < 3 else [tuple(rng.choice(vals) for _ in range(3)) for _ in range(30)]
        for b in bs:
            valid = all(l <= h for l, h in zip(*b))
            tag = "dim%d/%s" % (d, "valid" if valid else "inverted")
            for op in ("box.is_empty", "box.span", "box.center"):
                evs.append({"op": op, "a": b, "cls": tag})
            if not valid:
                continue
            sample = pts if (d == 1 or thorough) else rng.sample(pts, 8)
            for p in sample:
                for op in ("box.contains", "box.project", "box.distance_l1", "box.distance_linf", "box.distance_l2"):
                    evs.append({"op": op, "a": [b[0], b[1], list(p)], "cls": tag})
        vb = [b for b in bs if all(l <= h for l, h in zip(*b))]
        pairs = list(itertools.product(vb, vb))
        if len(pairs) > (4000 if thorough else 400):
            pairs = rng.sample(pairs, 4000 if thorough else 400)
        for x, y in pairs:
            for op in ("box.union", "box.intersection", "box.do_intersect"):
                evs.append({"op": op, "a": [x, y], "cls": "dim%d" % d})
        for _ in range(60):
            n = rng.randint(1, 4)
            evs.append({"op": "box.of_points", "a": [[rng.randint(-2, 3) for _ in range(d)] for _ in range(n)], "cls": "dim%d" % d})
    vecs = list(itertools.product([-1, 0, 1, 2], repeat=3))
    nz = [v for v in vecs if any(v)]
    nvec = 600 if thorough else 120
    for _ in range(nvec):
        u, v, w = list(rng.choice(vecs)), list(rng.choice(vecs)), list(rng.choice(vecs))
        evs.append({"op": "cross", "a": [u, v]})
        evs.append({"op": "dot", "a": [u, v]})
        evs.append({"op": "det_3x3", "a": [u, v, w], "form": rng.randint(0, 1)})
        evs.append({"op": "det_2x2", "a": [u[:2], v[:2]], "form": rng.randint(0, 1)})
        for w_ in ("l2", "l1", "linf"):
            evs.append({"op": "norm_" + w_, "a": u, "form": rng.randint(0, 1)})
        evs.append({"op": "distance_l2", "a": [u, v]})
        evs.append({"op": "triangle_area", "a": [u, v, w]})
    for _ in range(nvec):
        A, B_, C = [list(rng.choice(vecs)) for _ in range(3)]
        if A != B_ and C != B_:
            u = [A[i] - B_[i] for i in range(3)]
            v = [C[i] - B_[i] for i in range(3)]
            cr = [u[1] * v[2] - u[2] * v[1], u[2] * v[0] - u[0] * v[2], u[0] * v[1] - u[1] * v[0]]
            evs.append({"op": "angle_3pts", "a": [A, B_, C], "cls": "collinear" if not any(cr) else "generic"})
            if any(cr):
                evs.append({"op": "cotan", "a": [A, B_, C]})
                off = rng.choice([0, 0, 1, 2, -1])
                tri = [[p[0], p[1], p[2] + off] for p in ([x % 3 for x in A], [x % 3 for x in B_], [x % 3 for x in C])]
                evs.append({"op": "circumcenter", "a": tri, "cls": "plane_through_origin" if off == 0 and False else "lattice"})
        u, v, n = list(rng.choice(nz)), list(rng.choice(nz)), list(rng.choice(nz))
        evs.append({"op": "angle_2vec3D", "a": [u, v]})
        evs.append({"op": "signed_angle", "a": [u, v, n]})
    # sliver corners (angle at B of 1e-4 rad and less, or that far from pi): the cotangent is still an exact rational of the lattice vectors
    for A, B_, C in (([1, 0, 0], [0, 0, 0], [10000, 1, 0]), ([0, 0, 1], [0, 0, 0], [0, 3, 20000]), ([2, 1, 1], [1, 1, 1], [10001, 1, 2]),
                     ([1, 0, 0], [0, 0, 0], [-10000, 1, 0]), ([0, 2, 0], [0, 0, 0], [1, 20000, 1]), ([1, 0, 0], [0, 0, 0], [1000, 1, 0])):
        evs.append({"op": "cotan", "a": [A, B_, C]})
    for q in (1, 2, 3, 4, 6):
        for k in range(-4 * q, 4 * q + 1):
            if (k % q == 0) and ((k // q) % 2 != 0):
                continue                 # exactly +-pi: either sign is right, not judged
            evs.append({"op": "principal_angle", "a": [k, q]})
            evs.append({"op": "angle_diff", "a": [k, q]})
    for n in (1, 2, 3, 4, 5, 6):
        for q in (1, 2, 3, 4):
            for k in range(-q + 1, q):
                evs.append({"op": "roots", "a": [k, q, n], "mag": rng.choice([1.0, 2.0, 0.5, 1e-3]), "prefull": rng.randint(0, 1)})
    for k in range(1, 9):
        for _ in range(12 if thorough else 4):
            v = list(rng.choice(vecs))
            evs.append({"op": "rotate_around_axis", "a": [v, k], "axis_scale": rng.choice([1.0, 2.0, 0.5]), "as": rng.choice(["vec", "vec", "list", "intarray", "intvec"])})
            if k >= 5:
                evs.append({"op": "rotate_2d", "a": [v[:2], k]})
    return evs


def _random_effects(rng, names, i):
    evs = []
    for _ in range(rng.randint(8, 25)):
        r = rng.random()
        if r < 0.08:
            evs.append({"op": "user_seterr", "mode": rng.choice(["default", "ignore", "raise"])})
        else:
            evs.append({"op": rng.choice(names)})
    return {"id": "fx-rnd-%d" % i, "given": {"kind": "effects"}, "events": evs}


def run(ctx):
    from vf import core
    core.bind_repo()
    rng = random.Random(ctx.seed)
    thorough = ctx.tier == "thorough"
    ctx.model_check("C12_Prim_MC", "C12_Prim_MC.cfg", "box laws of the statement on every integer box pair/point, dim 1-2; Rotations ASSUMEs")
    r = ctx.model_check("C12_Effects_MC", "C12_Effects_MC_thorough.cfg" if thorough else "C12_Effects_MC.cfg",
                        "effect system: write sets, numpy error state (NoSideEffects)")
    if thorough:
        for cfg in ("C12_Effects_MC_asbuilt_seterr.cfg", "C12_Effects_MC_asbuilt_aabb.cfg"):
            ctx.model_check("C12_Effects_MC", cfg, "as-built deviation must violate NoSideEffects", expect_violation="NoSideEffects")
    hs = [x["h"] for x in r.records if x.get("k") == "H" and x["h"]]
    fx = [{"id": "fx-mc-%d" % i, "given": {"kind": "effects"}, "events": _effects_from_model(h)} for i, h in enumerate(hs)]
    names = sorted(_catalogue())
    # every catalogue call at least once first in a history (fresh error state), then random sequences
    fx += [{"id": "fx-single-%d" % i, "given": {"kind": "effects"}, "events": [{"op": n}, {"op": n}]} for i, n in enumerate(names)]
    fx += [_random_effects(rng, names, i) for i in range(1500 if thorough else 300)]
    obs = ctx.execute("c12", "exec_effects", fx, chunksize=32)
    ctx.judge("C12_Trace", "C12_Trace.cfg", [c for c in obs if c["id"].startswith("fx-mc")], "effects-transition-cover", "c12", "exec_effects")
    ctx.judge("C12_Trace", "C12_Trace.cfg", [c for c in obs if not c["id"].startswith("fx-mc")], "effects-random-sequences", "c12", "exec_effects")
    evs = _prim_cases(rng, thorough)
    prim = [{"id": "prim-%d" % i, "given": {"kind": "prim"}, "events": evs[i:i + 200]} for i in range(0, len(evs), 200)]
    obs = ctx.execute("c12", "exec_prim", prim, chunksize=4)
    ctx.judge("C12_Trace", "C12_Trace.cfg", obs, "primitives-lattice", "c12", "exec_prim")
    ctx.exhaustive = False
    ctx.assumptions += [
        "primitives are judged on integer lattice inputs (coordinates in -2..3): results are exact rationals; Euclidean lengths are compared squared, angles through cos^2 and sign(cos)",
        "general-angle rotation identities are not decided (quarter turns and the 3-4-5 angle only); angles exactly at +-pi are not judged",
        "contains_point follows the documented half-open convention",
        "returning an alias of an argument is not a modification; write sets: AABB.pad, Vec.normalize and geometry.transform.* modify their first argument only",
    ]
