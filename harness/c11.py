"""C11 - k-d tree queries are exact and construction always terminates.

Stage A  C11_MC: build machine for every point sequence of {0,2,4}^d (d = 1, 2), every admissible pivot
         choice: terminates (liveness + the split-count variant), leaves partition the points and respect
         their boxes.  C11_KNN_MC: the k-nearest search transcribed as a function, every tree / query / k.
Stage B  spec -> code: every emitted build behaviour is replayed with its pivots injected through a wrapper
         of KDTree._find_pivot installed in the harness process (which also enforces the spec's bound on the
         number of splits: exceeding it is recorded as non-termination).  code -> spec: random clustered /
         collinear / duplicated integer point sets up to 200 points, the three real strategies, k = 1..n+1,
         radii on both sides of realised distances.
Stage C  C11_Trace: partition, split consistency, k smallest distances in order, exact radius sets.
"""
import math
import random

import numpy as np


class SplitBoundExceeded(Exception):
    pass


def _nodes(tree):
    from mouette.spatial import KDTree
    out = []
    for n in tree.nodes:
        if isinstance(n, KDTree.Leaf):
            out.append({"id": int(n.id), "leaf": 1, "axis": -1, "split": 0, "left": -1, "right": -1, "pts": [int(i) for i in n.points]})
        else:
            sv = float(n.split_value)
            out.append({"id": int(n.id), "leaf": 0, "axis": int(n.split_axis), "split": int(sv) if sv == int(sv) else -7777,
                        "left": int(n.left), "right": int(n.right), "pts": []})
    return out


def exec_case(case):
    from mouette.spatial import KDTree
    g = case["given"]
    pts = np.array(g["pts"], dtype=float)
    n, d = pts.shape
    events = []
    tree = None
    for ev in case["events"]:
        e = dict(ev)
        e["exc"] = ""
        if ev["op"] == "build":
            inject = list(ev.get("pivots", []))
            used = []
            bound = 4 * n * d + 8          # the specification's variant allows 2*n*d + 2 splits
            orig = KDTree._find_pivot

            def fp(self, pts_ax, _inject=inject, _used=used):
                if len(_used) >= bound:
                    raise SplitBoundExceeded()
                p = float(_inject[len(_used)]) if len(_used) < len(_inject) else orig(self, pts_ax)
                _used.append(p)
                return p
            KDTree._find_pivot = fp
            np.random.seed(ev.get("npseed", 0))
            try:
                tree = KDTree(pts, max_leaf_size=g["leaf"], strategy=g["strategy"])
                e["nodes"] = _nodes(tree)
            except SplitBoundExceeded:
                e["exc"], e["nodes"], tree = "SplitBoundExceeded", [], None
            except Exception as ex:
                e["exc"], e["nodes"], tree = type(ex).__name__ + ":" + str(ex)[:60], [], None
            finally:
                KDTree._find_pivot = orig
            e["used"] = [int(p) if p == int(p) else -7777 for p in used][:64]
        elif tree is None:
            continue
        elif ev["op"] == "knn":
            try:
                e["ret"] = [int(i) for i in tree.query(np.array(ev["q"], dtype=float), ev["k"])]
            except Exception as ex:
                e["exc"], e["ret"] = type(ex).__name__, []
        elif ev["op"] == "radius":
            try:
                e["ret"] = [int(i) for i in tree.query_radius(np.array(ev["q"], dtype=float), math.sqrt(ev["m"] + 0.5))]
            except Exception as ex:
                e["exc"], e["ret"] = type(ex).__name__, []
        elif ev["op"] == "radius_int":          # an integer radius: points exactly on the sphere belong to the answer (documented: distance <= r)
            try:
                e["ret"] = [int(i) for i in tree.query_radius(np.array(ev["q"], dtype=float), float(ev["r"]))]
            except Exception as ex:
                e["exc"], e["ret"] = type(ex).__name__, []
        else:
            raise ValueError(ev["op"])
        events.append(e)
    return {"id": case["id"], "given": g, "events": events}


def _queries(rng, pts, nq):
    n, d = len(pts), len(pts[0])
    lo = min(min(p) for p in pts) - 2
    hi = max(max(p) for p in pts) + 2
    evs = []
    for _ in range(nq):
        q = list(rng.choice(pts)) if rng.random() < 0.3 else [rng.randint(lo, hi) for _ in range(d)]
        if rng.random() < 0.6:
            evs.append({"op": "knn", "q": q, "k": rng.choice([1, 1, 2, 3, n, n + 1, rng.randint(1, n + 1)])})
        else:
            d2 = sorted(sum((a - b) ** 2 for a, b in zip(p, q)) for p in pts)
            m = rng.choice(d2) + rng.choice([-1, 0, 0, 1]) if rng.random() < 0.8 else rng.randint(0, 4 * (hi - lo) ** 2)
            evs.append({"op": "radius", "q": q, "m": max(0, m)})
            # ... and a ball that touches a point exactly along one axis (tangent to the planes a k-d tree splits at)
            p0 = rng.choice(pts)
            a = rng.randrange(d)
            r = rng.randint(0, 3)
            q2 = list(p0)
            q2[a] += rng.choice([-r, r])
            for b in range(d):
                if b != a and rng.random() < 0.3:
                    q2[b] = p0[b]
            evs.append({"op": "radius_int", "q": q2, "r": r})
    return evs


def _random_points(rng):
    d = rng.choice([1, 2, 2, 3, 3, 4])
    n = rng.randint(1, 60)
    style = rng.choice(["uniform", "clustered", "collinear", "duplicates", "one_axis_constant", "all_equal"])
    pts = []
    for i in range(n):
        if style == "uniform":
            p = [2 * rng.randint(0, 10) for _ in range(d)]
        elif style == "clustered":
            c = rng.choice([0, 20])
            p = [c + 2 * rng.randint(0, 2) for _ in range(d)]
        elif style == "collinear":
            t = rng.randint(0, 8)
            p = [2 * t * (a + 1) for a in range(d)]
        elif style == "duplicates":
            p = [2 * rng.randint(0, 1) for _ in range(d)]
        elif style == "one_axis_constant":
            p = [4] + [2 * rng.randint(0, 6) for _ in range(d - 1)]
        else:
            p = [6] * d
        pts.append(p)
    return style, pts


def run(ctx):
    rng = random.Random(ctx.seed)
    thorough = ctx.tier == "thorough"
    recs = []
    for cfg, what in ((("C11_MC_1d_thorough.cfg" if thorough else "C11_MC_1d.cfg"), "1-D, any-coordinate pivots, leaf 1"),
                      (("C11_MC_2d_thorough.cfg" if thorough else "C11_MC_2d.cfg"), "2-D, any-coordinate pivots"),
                      ("C11_MC_med.cfg", "1-D, median pivots, leaf 2")):
        r = ctx.model_check("C11_MC", cfg, "build machine terminates, partitions, respects boxes: " + what)
        leaf = 2 if ("med" in cfg or "2d_thorough" in cfg) else 1
        strat = "balanced" if "med" in cfg else "random"
        recs += [(x, leaf, strat) for x in r.records if x.get("k") == "B"]
    ctx.model_check("C11_KNN_MC", "C11_KNN_MC_1d.cfg", "k-nearest search function: every tree/query/k (1-D, 4 points)")
    ctx.model_check("C11_KNN_MC", "C11_KNN_MC_2d.cfg", "k-nearest search function: every tree/query/k (2-D, 3 points)")
    if thorough:
        ctx.model_check("C11_MC", "C11_MC_asbuilt.cfg", "as-built split rule must exceed the split bound", expect_violation="BoundedSplits")
        ctx.model_check("C11_KNN_MC", "C11_KNN_MC_asbuilt.cfg", "as-built prune rule must miss a neighbour", expect_violation="KNearest")
    ctx.extra["build_behaviours_emitted"] = len(recs)
    cap = 20000 if thorough else 2500
    if len(recs) > cap:
        recs = rng.sample(recs, cap)
    cases = []
    for i, (x, leaf, strat) in enumerate(recs):
        pts = [list(p) for p in x["pts"]]
        cases.append({"id": "mc-%d" % i, "given": {"pts": pts, "leaf": leaf, "strategy": strat, "cls": "model/%dd" % len(pts[0])},
                      "events": [{"op": "build", "pivots": list(x["pivots"])}] + _queries(rng, pts, 3)})
    for i in range(1500 if thorough else 300):
        style, pts = _random_points(rng)
        strat = rng.choice(["balanced", "fast", "random"])
        cases.append({"id": "rnd-%d" % i, "given": {"pts": pts, "leaf": rng.choice([1, 2, 3, 10]), "strategy": strat, "cls": style + "/" + strat},
                      "events": [{"op": "build", "pivots": [], "npseed": rng.randrange(10 ** 6)}] + _queries(rng, pts, 10)})
    obs = ctx.execute("c11", "exec_case", cases, chunksize=16)
    ctx.judge("C11_Trace", "C11_Trace.cfg", [c for c in obs if c["id"].startswith("mc-")], "model-behaviours-pivots-injected", "c11", "exec_case", batch_events=1500)
    ctx.judge("C11_Trace", "C11_Trace.cfg", [c for c in obs if c["id"].startswith("rnd-")], "random-point-sets-real-strategies", "c11", "exec_case", batch_events=800)
    ctx.exhaustive = False
    ctx.assumptions += [
        "integer points with even coordinates (medians stay integral); radii r^2 = m + 1/2 never fall on a point",
        "non-termination is detected deterministically: more than 4*n*d + 8 splits (the specification's variant allows 2*n*d + 2)",
        "any k nearest with the right distance multiset, in non-decreasing order, is accepted",
    ]
