"""C16 - cutting along singularities yields a disk with faces in bijection.

Stage A  C16_MC: design check independent of weights: for tetrahedron, pyramid (disk), annulus and
         octahedron, every singularity set, every forest linking it to the border and EVERY dual spanning
         tree avoiding it: complement + pruning + re-gluing is a disk with the singular vertices on its
         border (known design gap: a one-edge cut graph on a closed surface cannot be expressed).
Stage B  the real SingularityCutter on the same surfaces and on library / lattice meshes of genus 0-1
         with up to ~100 faces, for all / many singularity sets, with and without a FeatureEdgeDetector;
         its singularity tree and dual tree are recorded by wrapping the two builder methods.
Stage C  C16_Trace re-glues the input along the REPORTED cut edges and compares with the output mesh.
"""
import itertools
import random

from vf import meshes


def exec_case(case):
    import mouette as M
    from mouette.processing.cutting import SingularityCutter
    g = dict(case["given"])
    m = meshes.build_surface(g["n"], g["F"], coords=g["P"])
    g["E"] = [[int(a), int(b)] for a, b in m.edges]
    events = []
    for ev in case["events"]:
        if not (g.get("reuse") and not ev["with_features"]):
            # a fresh mesh per run ... except in the cases marked "reuse", where every cut without features works on the SAME mesh object
            # (whatever an earlier cutter left on it must not change a later cut)
            m = meshes.build_surface(g["n"], g["F"], coords=g["P"])
        e = {"op": "cut", "S": list(ev["S"]), "with_features": ev["with_features"], "exc": "", "T": [], "DT": [], "cut": [], "adj": [],
             "oF": [], "onv": 0, "oP": [], "ref": []}
        try:
            feat = None
            if ev["with_features"]:
                feat = M.processing.FeatureEdgeDetector(verbose=False)
                feat.run(m)
            cutter = SingularityCutter(m, list(ev["S"]), features=feat, verbose=False)
            rec = {}
            for name in ("_build_singularity_spanning_tree_no_features", "_build_singularity_spanning_tree_with_features"):
                orig = getattr(cutter, name)

                def wrapT(orig=orig):
                    r = orig()
                    rec["T"] = sorted(int(k) for k in r if bool(r[k]))
                    return r
                setattr(cutter, name, wrapT)
            for name in ("_build_dual_tree_no_features", "_build_dual_tree_with_features"):
                orig = getattr(cutter, name)

                def wrapD(flags, orig=orig):
                    r = orig(flags)
                    rec["DT"] = sorted(int(k) for k in r)
                    return r
                setattr(cutter, name, wrapD)
            cutter.run()
            e["T"], e["DT"] = rec.get("T", []), rec.get("DT", [])
            e["cut"] = sorted(int(x) for x in cutter.cut_edges)
            e["adj"] = sorted([int(a), int(b)] for a in cutter.cut_adj for b in cutter.cut_adj[a] if a < b)
            out = cutter.output_mesh
            e["oF"] = [[int(v) for v in f] for f in out.faces]
            e["onv"] = len(out.vertices)
            e["oP"] = [[int(round(c)) for c in p] for p in out.vertices]
            e["ref"] = sorted([int(k), int(v)] for k, v in cutter.ref_vertex.items())
        except Exception as ex:
            e["exc"] = type(ex).__name__ + ":" + str(ex)[:80]
        events.append(e)
    return {"id": case["id"], "given": g, "events": events}


def _grid(nu, nv, wrap_u=False, wrap_v=False):
    """triangulated lattice grid; wrapping gives cylinders / tori"""
    iu = nu if wrap_u else nu + 1
    iv = nv if wrap_v else nv + 1
    idx = lambda i, j: (i % iu) * iv + (j % iv)
    P = [[i, j, 0] for i in range(iu) for j in range(iv)]
    if wrap_u or wrap_v:            # embed so that positions are distinct integers
        P = [[i, j, (i * 7 + j * 3) % 5] for i in range(iu) for j in range(iv)]
    F = []
    for i in range(nu):
        for j in range(nv):
            a, b, c, d = idx(i, j), idx(i + 1, j), idx(i + 1, j + 1), idx(i, j + 1)
            F += [[a, b, c], [a, c, d]]
    return P, F


def run(ctx):
    rng = random.Random(ctx.seed)
    thorough = ctx.tier == "thorough"
    for surf in ["tetrahedron", "pyramid", "annulus"] + (["octahedron"] if thorough else []):
        ctx.model_check("C16_MC", "C16_MC_%s.cfg" % surf, "every singularity set / linking forest / dual spanning tree on the %s" % surf)
    shapes = []
    tet = [[0, 1, 2], [0, 3, 1], [1, 3, 2], [0, 2, 3]]
    shapes.append(("tetrahedron", 4, tet, [[0, 0, 0], [3, 0, 0], [0, 3, 0], [0, 0, 3]], "all"))
    shapes.append(("pyramid", 5, [[0, 1, 4], [1, 2, 4], [2, 3, 4], [3, 0, 4]], [[0, 0, 0], [2, 0, 0], [2, 2, 0], [0, 2, 0], [1, 1, 1]], "all"))
    shapes.append(("annulus", 6, [[0, 1, 3], [1, 4, 3], [1, 2, 4], [2, 5, 4], [2, 0, 5], [0, 3, 5]],
                   [[0, 0, 0], [6, 0, 0], [3, 6, 0], [2, 1, 0], [4, 1, 0], [3, 3, 0]], "all"))
    octa = [[0, 1, 2], [0, 2, 3], [0, 3, 4], [0, 4, 1], [5, 2, 1], [5, 3, 2], [5, 4, 3], [5, 1, 4]]
    shapes.append(("octahedron", 6, octa, [[0, 0, 2], [2, 0, 0], [0, 2, 0], [-2, 0, 0], [0, -2, 0], [0, 0, -2]], "all"))
    P, F = _grid(3, 3)
    shapes.append(("disk3x3", len(P), F, P, "many"))
    P, F = _grid(4, 3, wrap_u=True)
    shapes.append(("cylinder4x3", len(P), F, P, "many"))
    P, F = _grid(3, 3, wrap_u=True, wrap_v=True)
    shapes.append(("torus3x3", len(P), F, P, "many"))
    P, F = _grid(4, 5, wrap_u=True, wrap_v=True)
    shapes.append(("torus4x5", len(P), F, P, "some"))
    for name, nv, Fl in meshes.library_surfaces(rng, big=thorough):
        if all(len(f) == 3 for f in Fl) and meshes.is_manifold(nv, Fl) and 4 <= len(Fl) <= 120 and "two-components" not in name and "isolated" not in name:
            def degenerate(Pc):          # a face with collinear corners is outside the property's domain (non-degenerate triangulations)
                for a, b, c in Fl:
                    u = [Pc[b][k] - Pc[a][k] for k in range(3)]
                    w = [Pc[c][k] - Pc[a][k] for k in range(3)]
                    if (u[1] * w[2] - u[2] * w[1], u[2] * w[0] - u[0] * w[2], u[0] * w[1] - u[1] * w[0]) == (0, 0, 0):
                        return True
                return False
            for _attempt in range(50):
                Pl = []
                seen = set()
                while len(Pl) < nv:
                    p = (rng.randint(0, 9), rng.randint(0, 9), rng.randint(0, 9))
                    if p not in seen:
                        seen.add(p)
                        Pl.append(list(p))
                if not degenerate(Pl):
                    break
            else:
                continue
            shapes.append(("L-" + name, nv, Fl, Pl, "some"))
    # an icosphere stretched along z (very unequal edge lengths: paths between singularities differ a lot from hop counts)
    import mouette as M
    ico = M.procedural.icosphere(1)
    Pico = [[int(round(1000 * float(p[0]))), int(round(1000 * float(p[1]))), int(round(2500 * float(p[2])))] for p in ico.vertices]
    shapes.append(("stretched-icosphere", len(Pico), [[int(v) for v in f] for f in ico.faces], Pico, "some"))
    cases = []
    corpus = {"stretched-icosphere": [[37, 12, 39], [12, 37, 39], [39, 12, 37]]}       # orders of one singularity set: the cutter's answer must be a disk for each
    for name, nv, F, P, how in shapes:
        if how == "all":
            subsets = [list(s) for k in range(0, nv + 1) for s in itertools.combinations(range(nv), k)]
            if not thorough:
                subsets = [s for s in subsets if len(s) <= 3] + rng.sample([s for s in subsets if len(s) > 3] or [[]], min(6, len([s for s in subsets if len(s) > 3]) or 1))
        else:
            cnt = (40 if how == "many" else 12) * (3 if thorough else 1)
            subsets = [[]] + [[v] for v in rng.sample(range(nv), min(3, nv))]
            subsets += [rng.sample(range(nv), rng.randint(2, min(6, nv))) for _ in range(cnt)]
            subsets += [list(x) for x in corpus.get(name, []) if max(x) < nv]
        evs = []
        for s in subsets:
            evs.append({"S": s, "with_features": 0})
            if rng.random() < 0.3:
                evs.append({"S": s, "with_features": 1})
        for k in range(0, len(evs), 12):
            cases.append({"id": "%s-%d" % (name, k // 12), "given": {"n": nv, "F": F, "P": P, "family": name.split("-")[0] if name.startswith("L-") else name, "reuse": (k // 12) % 2},
                          "events": evs[k:k + 12]})
    obs = ctx.execute("c16", "exec_case", cases, chunksize=4)
    ctx.judge("C16_Trace", "C16_Trace.cfg", obs, "cuts", "c16", "exec_case", batch_events=60)
    ctx.exhaustive = False
    ctx.assumptions += [
        "the design model quantifies over every dual spanning tree only on four small surfaces (<= 8 faces); larger surfaces are covered by the real cutter's own trees",
        "inputs are connected oriented manifold triangulations with distinct integer vertex positions",
        "known design gap: a cut graph consisting of a single edge on a closed surface (two adjacent singular vertices on a sphere) opens nothing in an indexed mesh",
    ]
