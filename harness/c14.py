"""C14 - procedural generators give valid meshes of the promised shape, for all parameters.

Stage A  C14_MC: the table of C14_Procedural is consistent with reference index arithmetic for every
         resolution pair 3..5 x 3..5 (grids, tori, cylinders; both switches).
Stage B  every generator over a parameter grid: unequal and minimal resolutions, radii 1/2, 1, 3, centres
         off the origin, all boolean switches.
Stage C  C14_Trace: validity, topology and counts via MeshCore; vertices on the named surface through one
         exact rational measure per vertex (squared distance to the centre / axis / torus circle).
"""
import itertools
import math
import random
from fractions import Fraction

import numpy as np


def rat(x, lim=4096):
    x = float(x)
    if not math.isfinite(x):
        return [0, 0]
    fr = Fraction(x).limit_denominator(lim)
    if abs(float(fr) - x) > 1e-9 * (1 + abs(x)):
        return [0, 0]
    return [fr.numerator, fr.denominator]


def _ipos(m):
    out = []
    for v in m.vertices:
        out.append([int(round(float(c))) if abs(float(c) - round(float(c))) < 1e-9 else 99999 for c in v])
    return out


def exec_case(case):
    import mouette as M
    from mouette.geometry import Vec
    P = M.procedural
    events = []
    twice = [(ev, first) for ev in case["events"] for first in (True, False)]      # every call is made twice: the first result is mutated in place and dropped
    for ev, first in twice:
        gen, p = ev["gen"], dict(ev["p"])
        e = {"op": "gen", "gen": gen, "p": p, "pcls": ev.get("pcls", ""), "exc": "", "cls": "", "nv": 0, "F": [], "ncells": 0, "ne": 0, "E": [],
             "m": [], "pos": [], "box": [], "fattrs": [], "derr": 0}
        p.setdefault("volume", 0)
        p.setdefault("triangulate", 0)
        p.setdefault("colored", 0)
        p.setdefault("want_m", [0, 0])
        V = lambda a: Vec(float(a[0]), float(a[1]), float(a[2]))
        try:
            meas = None
            if gen == "tetrahedron":
                m = P.tetrahedron(V(p["P0"]), V(p["P1"]), V(p["P2"]), V(p["P3"]), volume=bool(p["volume"]))
                e["pos"] = _ipos(m)
            elif gen == "axis_aligned_cube":
                m = P.axis_aligned_cube(colored=bool(p["colored"]), triangulate=bool(p["triangulate"]))
                e["pos"] = [[int(round(2 * float(c))) if abs(2 * float(c) - round(2 * float(c))) < 1e-9 else 99999 for c in v] for v in m.vertices]    # corners x 2
            elif gen == "hexahedron":
                pts = [V(q) for q in p["pts"]]
                m = P.hexahedron(*pts, colored=bool(p["colored"]), triangulate=bool(p["triangulate"]), volume=bool(p["volume"]))
                e["pos"] = _ipos(m)
            elif gen == "hexahedron_4pts":
                m = P.hexahedron_4pts(V(p["P0"]), V(p["P1"]), V(p["P2"]), V(p["P3"]), colored=bool(p["colored"]), volume=bool(p["volume"]))
                e["pos"] = _ipos(m)
            elif gen == "octahedron":
                m = P.octahedron()
                meas = lambda x: float(np.dot(x, x))
            elif gen == "icosahedron":
                c = V(p["c"])
                m = P.icosahedron(c, float(Fraction(*p["r"])))
                meas = lambda x: float(np.dot(x - c, x - c))
            elif gen == "dodecahedron":
                m = P.dodecahedron()
                meas = lambda x: float(np.dot(x, x))
            elif gen == "cylinder":
                A, B = V(p["A"]), V(p["B"])
                if p.get("den"):                              # a very short segment: B = A + (B - A) / den
                    B = A + (B - A) / float(p["den"])
                r = float(Fraction(*p["r"]))
                m = P.cylinder(A, B, radius=r, N=p["N"], fill_caps=bool(p["caps"]))
                ax = (B - A) / np.linalg.norm(B - A)

                def meas(x, A=A, B=B, ax=ax, r=r):
                    if np.allclose(x, A) or np.allclose(x, B):
                        return r * r                          # the two cap centres sit on the axis
                    t = float(np.dot(x - A, ax))
                    d = x - A - t * ax
                    on_rim = min(abs(t), abs(t - np.linalg.norm(B - A))) < 1e-9
                    return float(np.dot(d, d)) if on_rim else -1.0
            elif gen == "torus":
                R, r = float(Fraction(*p["R"])), float(Fraction(*p["r"]))
                m = P.torus(p["M"], p["m"], R, r, triangulate=bool(p["triangulate"]))
                meas = lambda x: float((math.hypot(x[0], x[1]) - R) ** 2 + x[2] ** 2)
            elif gen == "sphere_uv":
                c = V(p["c"])
                m = P.sphere_uv(p["n_lat"], p["n_long"], c, float(Fraction(*p["r"])))
                meas = lambda x: float(np.dot(x - c, x - c))
            elif gen == "icosphere":
                c = V(p["c"])
                m = P.icosphere(p["n"], c, float(Fraction(*p["r"])))
                meas = lambda x: float(np.dot(x - c, x - c))
            elif gen == "sphere_fibonacci":
                m = P.sphere_fibonacci(p["n"], float(Fraction(*p["r"])))
                meas = lambda x: float(np.dot(x, x))
            elif gen == "triangle":
                m = P.triangle(V(p["P0"]), V(p["P1"]), V(p["P2"]))
                e["pos"] = _ipos(m)
            elif gen == "quad":
                m = P.quad(V(p["P0"]), V(p["P1"]), V(p["P2"]), triangulate=bool(p["triangulate"]))
                e["pos"] = _ipos(m)
            elif gen == "unit_grid":
                m = P.unit_grid(p["nu"], p["nv"], triangulate=bool(p["triangulate"]), generate_uvs=bool(p.get("uvs", 0)))
                e["box"] = [[rat(c) for c in v] for v in m.vertices]
            elif gen == "unit_triangle":
                m = P.unit_triangle(p["n"], p["n"], generate_uvs=bool(p.get("uvs", 0)))
                e["box"] = [[rat(c) for c in v] for v in m.vertices]
            elif gen == "ring":
                m = P.ring(p["N"], p["defect"], open=bool(p["open"]), n_cover=p["cover"])
                meas = lambda x: float(x[0] ** 2 + x[1] ** 2) if abs(x[2]) < 1e-12 and (x[0] ** 2 + x[1] ** 2) > 1e-12 else 1.0
            elif gen == "flat_ring":
                m = P.flat_ring(p["N"], p["defect"], n_cover=p["cover"])
                meas = lambda x: float(x[0] ** 2 + x[1] ** 2) if (x[0] ** 2 + x[1] ** 2) > 1e-12 else 1.0
            elif gen == "dual_mesh":
                src = {"cube": P.axis_aligned_cube, "icosahedron": P.icosahedron, "torus": lambda: P.torus(4, 3, 1., 0.3, triangulate=True),
                       "octahedron": P.octahedron}[p["src"]]()
                m = P.dual_mesh(src, mode=p.get("mode", "barycenter"))
            elif gen == "spherify_vertices":
                pts = [V(q) for q in p["pts"]]
                pc = M.mesh.from_arrays(np.array([[float(c) for c in q] for q in p["pts"]]))
                r = float(Fraction(*p["r"]))
                m = P.spherify_vertices(pc, radius=r, n_subdiv=p["n"])
                meas = lambda x: min(float(np.dot(x - c, x - c)) for c in pts)
            elif gen == "cylindrify_edges":
                pl = P.chain_of_vertices(np.array([[float(c) for c in q] for q in p["pts"]]))
                m = P.cylindrify_edges(pl, radius=float(Fraction(*p["r"])), N=p["N"])
            elif gen == "chain_of_vertices":
                m = P.chain_of_vertices(np.array([[float(c) for c in q] for q in p["pts"]]), loop=bool(p["loop"]))
                e["pos"] = _ipos(m)
            elif gen == "vector_field":
                m = P.vector_field(np.array(p["orig"], dtype=float), np.array(p["vec"], dtype=float), length_mult=float(p["mult"]))
                e["pos"] = _ipos(m)
            else:
                raise KeyError(gen)
            if gen in ("ring", "flat_ring"):
                # the angle defect realised at the centre (2 pi - N * the angle under which a rim segment is seen), in micro-radians off the request
                c0, a, b = (np.asarray(m.vertices[i], dtype=float) for i in (0, 1, 2))
                u, w = a - c0, b - c0
                ang = math.atan2(float(np.linalg.norm(np.cross(u, w))), float(np.dot(u, w)))
                target = max(min(float(p["defect"]), 2 * math.pi - 0.01), 0.)
                e["derr"] = int(math.ceil(abs((2 * math.pi - p["N"] * ang) - target) * 1e6))
            e["cls"] = type(m).__name__
            e["nv"] = len(m.vertices)
            e["F"] = [[int(v) for v in f] for f in m.faces] if hasattr(m, "faces") else []
            e["ncells"] = len(m.cells) if hasattr(m, "cells") else 0
            e["ne"] = len(m.edges) if hasattr(m, "edges") else 0
            e["E"] = sorted(sorted([int(a), int(b)]) for a, b in m.edges) if gen in ("chain_of_vertices", "vector_field") else []
            e["fattrs"] = sorted(m.faces.attributes) if hasattr(m, "faces") else []
            if meas is not None:
                vals = [meas(np.asarray(v, dtype=float)) for v in m.vertices]
                if p["want_m"] == [0, 0]:
                    vals = [x / vals[0] for x in vals]           # no absolute radius is promised: equidistance from the centre
                e["m"] = [rat(x) for x in vals]
            # the caller owns what a generator returns: after it has been observed, every vertex is multiplied in place - a later call of any
            # generator in this process must not notice (module-level constants shared with returned meshes would)
            try:
                for v_ in m.vertices:
                    v_ *= 3.0
            except Exception:
                pass
        except KeyError:
            raise
        except Exception as ex:
            e["exc"] = type(ex).__name__ + ":" + str(ex)[:80]
        e["p"] = p
        if not first:
            events.append(e)
    return {"id": case["id"], "given": {"kind": "procedural"}, "events": events}


def _params(rng, thorough):
    evs = []
    add = lambda gen, p, pcls="": evs.append({"gen": gen, "p": p, "pcls": pcls})
    res = [3, 4, 5, 6] if thorough else [3, 4, 5]
    radii = [[1, 2], [1, 1], [3, 1]]
    sq = lambda r: [r[0] * r[0], r[1] * r[1]]
    cs = [[0, 0, 0], [2, -1, 3]]
    for vol in (0, 1):
        add("tetrahedron", {"P0": [0, 0, 0], "P1": [2, 0, 0], "P2": [0, 3, 0], "P3": [1, 1, 4], "volume": vol}, "volume" if vol else "surface")
        add("tetrahedron", {"P0": [1, 1, 1], "P1": [0, 2, 0], "P2": [3, 0, 0], "P3": [1, 1, -2], "volume": vol}, "volume" if vol else "surface")
    for col, tri in itertools.product((0, 1), (0, 1)):
        add("axis_aligned_cube", {"colored": col, "triangulate": tri}, "tri" if tri else "quad")
    cube = [[0, 0, 0], [2, 0, 0], [2, 2, 0], [0, 2, 0], [0, 0, 3], [2, 0, 3], [2, 2, 3], [0, 2, 3]]
    for col, tri, vol in itertools.product((0, 1), (0, 1), (0, 1)):
        add("hexahedron", {"pts": cube, "colored": col, "triangulate": tri, "volume": vol}, ("volume" if vol else "surface") + ("/tri" if tri else ""))
    for col, vol in itertools.product((0, 1), (0, 1)):
        add("hexahedron_4pts", {"P0": [0, 0, 0], "P1": [2, 0, 0], "P2": [0, 3, 0], "P3": [0, 0, 1], "colored": col, "volume": vol}, "volume" if vol else "surface")
        add("hexahedron_4pts", {"P0": [1, 1, 0], "P1": [2, 2, 0], "P2": [0, 2, 0], "P3": [1, 1, 5], "colored": col, "volume": vol}, "volume" if vol else "surface")
    add("octahedron", {"want_m": [1, 4]})
    add("dodecahedron", {})
    for c, r in itertools.product(cs, radii):
        add("icosahedron", {"c": c, "r": r}, "centre_off_origin" if any(c) else "")
    for N, caps, r in itertools.product(res, (0, 1), radii):
        A, B = rng.choice([([0, 0, 0], [0, 0, 2]), ([1, 2, 3], [1, 2, 7]), ([0, 0, 0], [3, 0, 0]), ([1, 0, 0], [1, 4, 3]),
                           ([0, 0, 0], [1, 1, 5]), ([2, 0, 1], [1, 0, -6]), ([0, 0, 0], [0, 1, 9])])      # the last three: nearly, not exactly, vertical
        add("cylinder", {"A": A, "B": B, "N": N, "caps": caps, "r": r, "want_m": sq(r)}, "caps" if caps else "open")
    for (A, B), den, caps in itertools.product((([0, 0, 0], [1, 0, 0]), ([1, 2, 3], [1, 3, 3]), ([0, 0, 0], [0, 0, 1]), ([2, 0, 1], [3, 0, 1]), ([0, 0, 0], [1, 1, 0])),
                                               (2000000, 500), (0, 1)):     # segments of length 5e-7 and 2e-3 along each axis, radius unchanged
        add("cylinder", {"A": A, "B": B, "den": den, "N": 4, "caps": caps, "r": [1, 2], "want_m": [1, 4]}, ("caps" if caps else "open") + "/short_segment")
    for M_, m_, tri in itertools.product(res, res, (0, 1)):
        R, r = rng.choice([([1, 1], [1, 4]), ([2, 1], [1, 2]), ([3, 1], [1, 1])])
        add("torus", {"M": M_, "m": m_, "R": R, "r": r, "triangulate": tri, "want_m": sq(r)}, "equal" if M_ == m_ else "unequal")
    for M_, m_ in ((49, 3), (3, 49), (3, 98)) + (((103, 3), (4, 107)) if thorough else ()):      # counts at which a float-step range has one entry too many
        add("torus", {"M": M_, "m": m_, "R": [3, 1], "r": [1, 2], "triangulate": 0, "want_m": sq([1, 2])}, "unequal")
    for nl, ng in itertools.product([3, 4, 5], res):
        c, r = rng.choice(cs), rng.choice(radii)
        add("sphere_uv", {"n_lat": nl, "n_long": ng, "c": c, "r": r, "want_m": sq(r)})
    for n in ([0, 1, 2] if thorough else [0, 1]):
        for c, r in itertools.product(cs, radii):
            add("icosphere", {"n": n, "c": c, "r": r, "want_m": sq(r) if n > 0 else [0, 0]}, "n=%d" % n)
    for n in ([4, 5, 6, 8, 12, 20] if thorough else [4, 6, 12]):
        for r in radii:
            add("sphere_fibonacci", {"n": n, "r": r, "want_m": sq(r)})
    add("triangle", {"P0": [0, 0, 0], "P1": [3, 0, 0], "P2": [0, 2, 1]})
    for tri in (0, 1):
        add("quad", {"P0": [0, 0, 0], "P1": [0, 2, 0], "P2": [3, 0, 0], "triangulate": tri})
        add("quad", {"P0": [1, 1, 1], "P1": [2, 3, 1], "P2": [4, 0, 2], "triangulate": tri})
    for nu, nv, tri in itertools.product([2, 3, 4, 5], [2, 3, 4, 5], (0, 1)):
        add("unit_grid", {"nu": nu, "nv": nv, "triangulate": tri, "uvs": rng.randint(0, 1)}, "equal" if nu == nv else "unequal")
    for n in (2, 3, 4, 5):
        add("unit_triangle", {"n": n, "uvs": n % 2})
    for N, op, cov in itertools.product([3, 4, 6], (0, 1), (1, 2)):
        for dfc in ([0.0, 0.5, 1.5, 3.0, 5.9, 6.1, 6.25, 6.27, 7.0] if cov == 1 else [rng.choice([0.0, 0.5, 1.5])]):
            add("ring", {"N": N, "defect": dfc, "open": op, "cover": cov, "want_m": [1, 1]}, ("open" if op else "closed") + "/cover%d" % cov)
            add("flat_ring", {"N": N, "defect": dfc, "cover": cov, "want_m": [1, 1]}, "cover%d" % cov)
    for src, sv, sf, chi in (("cube", 8, 6, 2), ("icosahedron", 12, 20, 2), ("torus", 12, 24, 0), ("octahedron", 6, 8, 2)):
        add("dual_mesh", {"src": src, "srcV": sv, "srcF": sf, "srcChi": chi}, src)
    for k, n in itertools.product((1, 2), (0, 1)):
        pts = [[0, 0, 0], [5, 1, 2]][:k]
        r = rng.choice(radii[:2])
        add("spherify_vertices", {"pts": pts, "k": k, "n": n, "r": r, "want_m": sq(r) if n > 0 else [0, 0]}, "n=%d" % n)
    for N in (3, 5):
        add("cylindrify_edges", {"pts": [[0, 0, 0], [1, 0, 0], [1, 1, 0]], "k": 2, "N": N, "r": [1, 4]})
    pts = [[0, 0, 0], [1, 0, 0], [1, 2, 0], [3, 2, 1]]
    for loop in (0, 1):
        E = [[i, i + 1] for i in range(3)] + ([[0, 3]] if loop else [])
        add("chain_of_vertices", {"pts": pts, "loop": loop, "nv": 4, "ne": len(E), "pos": pts, "E": sorted(E)}, "loop" if loop else "open")
    orig, vec = [[0, 0, 0], [1, 1, 0]], [[1, 0, 0], [0, 2, 1]]
    add("vector_field", {"orig": orig, "vec": vec, "mult": 2, "nv": 4, "ne": 2,
                         "pos": [[0, 0, 0], [2, 0, 0], [1, 1, 0], [1, 5, 2]], "E": [[0, 1], [2, 3]]})
    return evs


def run(ctx):
    rng = random.Random(ctx.seed)
    thorough = ctx.tier == "thorough"
    ctx.model_check("C14_MC", "C14_MC.cfg", "table consistent with reference index arithmetic for all resolution pairs 3..5 (grid, torus, cylinder)")
    evs = _params(rng, thorough)
    if thorough:          # the grid draws some parameters at random (axes, defects, covers): three more draws
        for _ in range(3):
            evs += _params(rng, thorough)
    cases = [{"id": "gen-%d" % i, "given": {"kind": "procedural"}, "events": evs[i:i + 10]} for i in range(0, len(evs), 10)]
    obs = ctx.execute("c14", "exec_case", cases, chunksize=2)
    ctx.judge("C14_Trace", "C14_Trace.cfg", obs, "generators-x-parameters", "c14", "exec_case", batch_events=60)
    ctx.exhaustive = False
    ctx.assumptions += [
        "the angle defect at the centre of ring() / flat_ring() is measured in floating point by the driver and judged within 2 micro-radians of the clamped request",
        "volume outputs (volume=True) are judged for class, cell, counts and indices; their face list is not a surface",
        "icosahedron / icosphere(0) / spherify(n=0): all vertices at ONE distance from the centre (the 'unit icosahedron' is not on the unit sphere); consistently oriented does not mean outward",
        "cylindrify_edges is driven on unit-length polylines (its radius is relative to the mean edge length)",
        "unit_triangle only with equal resolutions",
    ]
