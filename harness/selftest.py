"""bin/selftest [--corrupt] [--coverage] [--seeded] [Cxx ...]        (default: --corrupt --seeded, every property)

Demonstrates that the specifications are bound to the code and are not vacuous:
  --corrupt   runs the quick pipeline of each property and, for every trace family it validates, re-judges copies of
              accepted cases in which ONE recorded value was changed (an integer +1, a string replaced, a list shortened);
              reports how many of these corrupted traces the trace specification rejects.  A property whose validator
              accepts every corruption is not bound to anything: the self-test fails.
  --seeded    applies every change under /verif/seeded/ to /repo in turn (bin/seeded), runs the property's quick check and
              expects exit 1 with a VIOLATION line; /repo is restored after each.
  --coverage  re-runs the bounded models with TLC's -coverage and lists actions that were never taken (slow).
Nothing here is registered in MANIFEST.json; it is the machinery testing itself.
"""
import copy
import importlib
import json
import os
import random
import subprocess
import sys

sys.path.insert(0, os.path.dirname(os.path.abspath(__file__)))
os.environ.setdefault("PYTHONHASHSEED", "0")

from vf import core, tlc  # noqa: E402
from vf.tlc import MachineryError  # noqa: E402

VERIF = os.path.dirname(os.path.dirname(os.path.abspath(__file__)))
PROPS = ["C%02d" % i for i in range(1, 21)]


def leaves(node, path=()):
    if isinstance(node, dict):
        for k, v in node.items():
            yield from leaves(v, path + (k,))
    elif isinstance(node, list):
        if node and all(not isinstance(x, (dict, list)) for x in node):
            yield path, node                      # a flat list is one leaf (it can be shortened)
        for i, v in enumerate(node):
            if isinstance(v, (dict, list)):
                yield from leaves(v, path + (i,))
            else:
                yield path + (i,), v
    else:
        yield path, node


def setp(root, path, val):
    for p in path[:-1]:
        root = root[p]
    root[path[-1]] = val


def corrupt_value(v, rng):
    if isinstance(v, bool):
        return not v
    if isinstance(v, int):
        return v + rng.choice([1, -1]) if v != 0 else 1
    if isinstance(v, float):
        return v + 1.0
    if isinstance(v, str):
        return "corrupted" if v == "" else v + "x"
    if isinstance(v, list) and v:
        return v[:-1]
    return None


class CorruptCtx(core.Ctx):
    def __init__(self, *a, **k):
        super().__init__(*a, **k)
        self.tried = []          # (family, path, rejected, how)
        self.rng = random.Random(20261001)

    def judge(self, module, cfg, cases, family, driver=None, exec_fn=None, batch_events=4000, env=None):
        found = super().judge(module, cfg, cases, family, driver, exec_fn, batch_events, env)
        bad_ids = {m["case"]["id"] for m in found}
        clean = [c for c in cases if c["id"] not in bad_ids and c["id"] not in self.skipped_cases and c["events"]]
        self.rng.shuffle(clean)
        variants = []
        for c in clean[:6]:
            lv = [(p, v) for p, v in leaves(c["events"]) if corrupt_value(v, self.rng) is not None]
            self.rng.shuffle(lv)
            for k, (p, v) in enumerate(lv[:4]):
                cc = copy.deepcopy(c)
                setp(cc["events"], p, corrupt_value(v, self.rng))
                cc["id"] = "%s#corrupt%d" % (c["id"], k)
                variants.append((cc, p))
        if variants:
            # all corrupted copies are judged in one go (a batch TLC cannot evaluate is split by judge itself)
            sub = core.Ctx(self.prop, self.tier, self.seed)
            try:
                got = core.Ctx.judge(sub, module, cfg, [cc for cc, _ in variants], family, driver, exec_fn, batch_events, env)
                rejected = {m["case"]["id"]: m for m in got}
                skipped = set(sub.skipped_cases)
                for cc, p in variants:
                    if cc["id"] in rejected:
                        how = "evaluation error" if rejected[cc["id"]]["key"].startswith("trace/") else "mismatch"
                        self.tried.append((family, p, True, how))
                    else:
                        self.tried.append((family, p, False, "skipped by precondition" if cc["id"] in skipped else "accepted"))
            except MachineryError as ex:
                for cc, p in variants:
                    self.tried.append((family, p, True, "evaluation error (whole batch)"))
        return found


class CoverageCtx(core.Ctx):
    def __init__(self, *a, **k):
        super().__init__(*a, **k)
        self.cov = []

    def model_check(self, module, cfg, what=None, expect_violation=None, **kw):
        if expect_violation or kw.get("simulate"):
            return super().model_check(module, cfg, what, expect_violation, **kw)
        kw["coverage"] = True
        kw.setdefault("timeout", 1500)
        r = super().model_check(module, cfg, what, expect_violation, **kw)
        never = sorted(a for a, (g, d) in r.coverage.items() if g == 0)
        self.cov.append((module, cfg, len(r.coverage), never))
        return r

    def execute(self, *a, **k):
        return []

    def judge(self, *a, **k):
        return []


def run_corrupt(props):
    ok = True
    for p in props:
        ctx = CorruptCtx(p, "quick", 0)
        try:
            importlib.import_module(p.lower()).run(ctx)
        except MachineryError as e:
            print("SELFTEST %s corrupt: machinery error %s" % (p, str(e)[:300]))
            ok = False
            continue
        n = len(ctx.tried)
        rej = sum(1 for t in ctx.tried if t[2])
        acc = [t for t in ctx.tried if not t[2]]
        fams = sorted({t[0] for t in ctx.tried})
        per = {f: (sum(1 for t in ctx.tried if t[0] == f and t[2]), sum(1 for t in ctx.tried if t[0] == f)) for f in fams}
        print("SELFTEST %s corrupt: %d of %d single-value corruptions rejected; per family %s" % (p, rej, n, per))
        for t in acc[:4]:
            print("    accepted: family=%s field=%s (%s)" % (t[0], "/".join(str(x) for x in t[1]), t[3]))
        if n == 0 or rej == 0 or any(r == 0 for r, _ in per.values()):
            print("SELFTEST %s corrupt: FAILED - a trace family accepts every corruption" % p)
            ok = False
    return ok


def run_seeded(props):
    ok = True
    root = os.path.join(VERIF, "seeded")
    for sid in sorted(os.listdir(root)) if os.path.isdir(root) else []:
        meta = os.path.join(root, sid, "meta.json")
        if not os.path.isfile(meta):
            continue
        m = json.load(open(meta))
        if m["property"] not in props:
            continue
        r = subprocess.run([os.path.join(VERIF, "bin", "seeded"), sid, "quick"], stdout=subprocess.PIPE, stderr=subprocess.STDOUT, text=True)
        print("SELFTEST seeded:", r.stdout.strip().splitlines()[-1][:300] if r.stdout.strip() else "(no output)")
        if r.returncode != 0 and not m.get("expected_miss"):
            ok = False
    return ok


def run_coverage(props):
    for p in props:
        ctx = CoverageCtx(p, "quick", 0)
        try:
            importlib.import_module(p.lower()).run(ctx)
        except MachineryError as e:
            print("SELFTEST %s coverage: machinery error %s" % (p, str(e)[:200]))
            continue
        for module, cfg, n, never in ctx.cov:
            print("SELFTEST %s coverage: %s/%s actions=%d never_taken=%s" % (p, module, os.path.basename(cfg), n, never))
    return True


def main(argv):
    modes = [a for a in argv if a.startswith("--")] or ["--corrupt", "--seeded"]
    props = [a.upper() for a in argv if not a.startswith("--")] or PROPS
    core.bind_repo()
    ok = True
    if "--corrupt" in modes:
        ok &= run_corrupt(props)
    if "--seeded" in modes:
        ok &= run_seeded(props)
    if "--coverage" in modes:
        ok &= run_coverage(props)
    print("SELFTEST", "passed" if ok else "FAILED")
    return 0 if ok else 1


if __name__ == "__main__":
    sys.exit(main(sys.argv[1:]))
