"""Run TLC on a specification of /verif/specs and parse what it printed.

All verdict-bearing output of a specification is printed with PrintT(ToJson(rec)) and therefore
appears as one doubly-encoded JSON string per line; everything else on stdout is TLC's own chatter,
from which only the statistics and error banners are read.
"""
import json
import os
import re
import shutil
import subprocess
import tempfile
import time

VERIF = os.path.dirname(os.path.dirname(os.path.dirname(os.path.abspath(__file__))))
SPECS = os.path.join(VERIF, "specs")
JAR = "/opt/veriftools/tla/tla2tools.jar"
DEPS = "/opt/veriftools/tla/CommunityModules-deps.jar"


class MachineryError(Exception):
    """Anything that is not a verdict: TLC crashed, parse error, unconsumed trace ... (exit 2)."""


class TLCResult:
    def __init__(self):
        self.rc = None
        self.out = ""
        self.generated = 0
        self.distinct = 0
        self.depth = 0
        self.records = []          # decoded PrintT(ToJson(..)) records
        self.violated = []         # names of violated invariants / properties
        self.error = None          # TLC evaluation error text, if any
        self.wall = 0.0
        self.coverage = {}         # action name -> (generated, distinct) when -coverage was on
        self.counterexample = ""

    @property
    def clean(self):
        return self.rc == 0 and not self.violated and self.error is None


_STATS = re.compile(r"(\d+) states generated, (\d+) distinct states found")
_SIMSTATS = re.compile(r"The number of states generated: (\d+)")
_DEPTH = re.compile(r"The depth of the complete state graph search is (\d+)")
_INV = re.compile(r"Error: Invariant (\S+) is violated")
_PROP = re.compile(r"Error: (?:Temporal properties were violated|Action property (\S+) is violated)")
_COV = re.compile(r"^<(\w+) line \d+, col \d+ to line \d+, col \d+ of module (\w+)>: (\d+):(\d+)")


def run_tlc(module, cfg, env=None, workers=1, timeout=1800, simulate=None, depth=None,
            seed=None, coverage=False, deadlock=False, extra=None, dfs=False, specs_dir=SPECS,
            heap="8g"):
    """module: e.g. 'C20_UF_MC' (file specs/<module>.tla); cfg: file name in specs/ or absolute."""
    meta = tempfile.mkdtemp(prefix="vf-tlc-")
    cfg_path = cfg if os.path.isabs(cfg) else os.path.join(specs_dir, cfg)
    cmd = ["java", "-XX:+UseParallelGC", "-Xmx" + heap, "-Xss64m"]
    if dfs:
        cmd.append("-Dtlc2.tool.queue.IStateQueue=StateDeque")
    cmd += ["-cp", JAR + ":" + DEPS, "tlc2.TLC", "-workers", str(workers), "-metadir", meta,
            "-noGenerateSpecTE", "-config", cfg_path]
    if not deadlock:
        cmd.append("-deadlock")      # -deadlock switches deadlock checking OFF
    if coverage:
        cmd += ["-coverage", "1"]
    if simulate:
        cmd += ["-simulate", simulate]
    if depth is not None:
        cmd += ["-depth", str(depth)]
    if seed is not None:
        cmd += ["-seed", str(seed)]
    if extra:
        cmd += list(extra)
    cmd.append(os.path.join(specs_dir, module + ".tla"))
    e = dict(os.environ)
    if env:
        e.update({k: str(v) for k, v in env.items()})
    t0 = time.time()
    try:
        p = subprocess.run(cmd, cwd=specs_dir, env=e, stdout=subprocess.PIPE,
                           stderr=subprocess.STDOUT, timeout=timeout, text=True, errors="replace")
    except subprocess.TimeoutExpired as ex:
        shutil.rmtree(meta, ignore_errors=True)
        raise MachineryError("TLC timed out after %ss on %s" % (timeout, module)) from ex
    finally:
        pass
    shutil.rmtree(meta, ignore_errors=True)
    r = TLCResult()
    r.rc = p.returncode
    r.out = p.stdout
    r.wall = time.time() - t0
    _parse(r)
    return r


def _parse(r):
    in_error = False
    err_lines = []
    for line in r.out.splitlines():
        s = line.strip()
        if s.startswith('"{') or s.startswith('"['):
            try:
                r.records.append(json.loads(json.loads(s)))
                continue
            except Exception:
                pass
        m = _STATS.search(s)
        if m:
            r.generated, r.distinct = int(m.group(1)), int(m.group(2))
        m = _SIMSTATS.search(s)
        if m:
            r.generated = max(r.generated, int(m.group(1)))
            r.distinct = max(r.distinct, 1)
        m = _DEPTH.search(s)
        if m:
            r.depth = int(m.group(1))
        m = _INV.search(s)
        if m:
            r.violated.append(m.group(1))
        m = _PROP.search(s)
        if m:
            r.violated.append(m.group(1) or "TemporalProperty")
        m = _COV.match(s)
        if m:
            r.coverage[m.group(1)] = (int(m.group(3)), int(m.group(4)))
        if s.startswith("Error:") and not _INV.search(s) and not _PROP.search(s):
            if "The behavior up to this point" not in s and "The following behavior" not in s:
                in_error = True
        if in_error:
            err_lines.append(line)
            if len(err_lines) > 40:
                in_error = False
    if err_lines:
        r.error = "\n".join(err_lines)
    if r.violated:
        idx = r.out.find("Error:")
        r.counterexample = r.out[idx:idx + 6000]


def must_be_clean(r, what):
    if r.error is not None or (r.rc != 0 and not r.violated):
        raise MachineryError("TLC failed on %s (rc=%s):\n%s" % (what, r.rc, ((r.error or "") + "\n" + r.out[-2500:])))
    return r
