"""Input families shared by the mesh-shaped properties (DESIGN.md 2.5)."""
import random


def build_surface(nv, faces, coords=None, edges=None):
    import mouette as M
    from mouette.geometry import Vec
    data = M.mesh.RawMeshData()
    rng = random.Random(nv * 7919 + len(faces))
    for i in range(nv):
        if coords is not None:
            data.vertices.append(Vec(float(coords[i][0]), float(coords[i][1]), float(coords[i][2])))
        else:
            data.vertices.append(Vec(rng.random(), rng.random(), rng.random()))
    if edges:
        data.edges += [tuple(e) for e in edges]
    data.faces += [list(f) for f in faces]
    return M.mesh.SurfaceMesh(data)


def permute_surface(rng, nv, faces, renumber=True, rotate=True, shuffle=True):
    """The symmetries TLC factored out: vertex renumbering, face rotation, face order."""
    perm = list(range(nv))
    if renumber:
        rng.shuffle(perm)
    out = []
    for f in faces:
        g = [perm[v] for v in f]
        if rotate:
            k = rng.randrange(len(g))
            g = g[k:] + g[:k]
        out.append(g)
    if shuffle:
        rng.shuffle(out)
    return nv, out


def is_manifold(nv, faces):
    """Generator-side filter only (never an oracle): oriented, every vertex fan is one chain."""
    he = {}
    for fi, f in enumerate(faces):
        for i in range(len(f)):
            k = (f[i], f[(i + 1) % len(f)])
            if k in he:
                return False
            he[k] = (fi, i)
    for v in range(nv):
        cs = [(fi, i) for fi, f in enumerate(faces) for i in range(len(f)) if f[i] == v]
        if not cs:
            continue
        def step(c):      # opposite(previous(c))
            fi, i = c
            f = faces[fi]
            p = f[(i - 1) % len(f)]
            o = he.get((v, p))
            return None if o is None else (o[0], o[1])
        starts = [c for c in cs if he.get((faces[c[0]][(c[1] + 1) % len(faces[c[0]])], v)) is None]
        c = starts[0] if starts else cs[0]
        if len(starts) > 1:
            return False
        seen = 0
        first = c
        while c is not None and seen <= len(cs):
            seen += 1
            c = step(c)
            if c == first:
                break
        if seen != len(cs):
            return False
    return True


def library_surfaces(rng, big=False):
    """(name, nv, faces) of small outputs of mouette's own generators, plus mutilated variants."""
    import mouette as M
    from mouette.geometry import Vec
    P = M.procedural
    out = []

    def add(name, m):
        out.append((name, len(m.vertices), [list(map(int, f)) for f in m.faces]))

    add("tetrahedron", P.tetrahedron(Vec(0, 0, 0), Vec(1, 0, 0), Vec(0, 1, 0), Vec(0, 0, 1)))
    add("cube", P.axis_aligned_cube())
    add("cube-tri", P.axis_aligned_cube(triangulate=True))
    add("octahedron", P.octahedron())
    add("icosahedron", P.icosahedron())
    add("dodecahedron", P.dodecahedron())
    add("grid3x3", P.unit_grid(3, 3))
    add("grid4x4-tri", P.unit_grid(4, 4, triangulate=True))
    add("unit-triangle", P.unit_triangle(4, 4))
    add("cylinder-open", P.cylinder(Vec(0, 0, 0), Vec(0, 0, 1), N=6, fill_caps=False))
    add("cylinder-closed", P.cylinder(Vec(0, 0, 0), Vec(0, 0, 1), N=5, fill_caps=True))
    add("torus", P.torus(4, 5, 1., 0.3))
    add("ring", P.ring(6, 0.3))
    add("flat-ring", P.flat_ring(5, 0.2))
    add("dual-ico", P.dual_mesh(P.icosahedron()))
    if big:
        add("icosphere1", P.icosphere(1))
        add("torus-tri", P.torus(6, 7, 1., 0.3, triangulate=True))
        add("grid6x5", P.unit_grid(6, 6, triangulate=True))
        add("dual-torus", P.dual_mesh(P.torus(5, 4, 1., 0.3, triangulate=True)))
    # mutilated variants: drop random faces (keeps orientation; manifoldness is re-checked by the spec)
    base = list(out)
    for name, nv, F in base:
        if len(F) < 4:
            continue
        for j in range(2 if not big else 4):
            for _try in range(30):
                k = rng.randint(1, max(1, len(F) // 3))
                drop = set(rng.sample(range(len(F)), k))
                G = [f for i, f in enumerate(F) if i not in drop]
                if is_manifold(nv, G):
                    break
            else:
                continue
            used = sorted({v for f in G for v in f})
            ren = {v: i for i, v in enumerate(used)}
            out.append(("%s-minus%d.%d" % (name, k, j), len(used), [[ren[v] for v in f] for f in G]))
    # two components
    t = [[0, 1, 2], [0, 2, 3]]
    out.append(("two-components", 8, t + [[v + 4 for v in f] for f in t]))
    # isolated vertex, bow-tie free
    out.append(("isolated-vertex", 5, [[0, 1, 2], [0, 2, 3]]))
    return out


def is_subdividable(nv, faces):
    """Generator-side filter: two faces share at most one edge; no polygon chord is an edge."""
    edges = {}
    for fi, f in enumerate(faces):
        for i in range(len(f)):
            edges.setdefault(frozenset((f[i], f[(i + 1) % len(f)])), []).append(fi)
    pairs = {}
    for fs in edges.values():
        if len(fs) == 2:
            k = tuple(sorted(fs))
            pairs[k] = pairs.get(k, 0) + 1
            if pairs[k] > 1:
                return False
    for f in faces:
        n = len(f)
        for i in range(n):
            for j in range(i + 2, n):
                if i == 0 and j == n - 1:
                    continue
                if frozenset((f[i], f[j])) in edges:
                    return False
    return True
