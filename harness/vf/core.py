"""Check context: stages A (model checking), B (execution against the real code), C (trace
validation by TLC), then verdicts, known findings, replay files and evidence."""
import hashlib
import importlib
import json
import multiprocessing as mp
import os
import sys
import tempfile
import time
import traceback
from concurrent.futures import ThreadPoolExecutor

from . import tlc
from .tlc import MachineryError, VERIF

REPO = os.environ.get("VERIF_REPO", "/repo")
EVIDENCE_DIR = os.environ.get("VERIF_EVIDENCE_DIR") or os.path.join(VERIF, "evidence")      # bin/seeded redirects it: evidence/ describes the unchanged tree
REPLAY_DIR = os.path.join(VERIF, "replays")
FINDINGS_FILE = os.path.join(VERIF, "known_findings.json")
NCPU = min(16, os.cpu_count() or 1)


def bind_repo():
    """Make sure the working tree under $VERIF_REPO is what gets imported."""
    if REPO not in sys.path[:1]:
        sys.path.insert(0, REPO)
    os.environ.setdefault("MOUETTE_VERIF", "1")
    import mouette  # noqa
    here = os.path.realpath(mouette.__file__)
    if not here.startswith(os.path.realpath(REPO) + os.sep):
        raise MachineryError("mouette imported from %s, not from %s" % (here, REPO))
    return mouette


def load_findings(prop):
    try:
        with open(FINDINGS_FILE) as f:
            data = json.load(f)
    except FileNotFoundError:
        return []
    return [e for e in data.get("findings", []) if e.get("property") == prop]


_HUNG = None       # shared counter of cases of the current family that did not return (set per pool)


def _init_worker(hung=None):
    global _HUNG
    _HUNG = hung
    try:
        import resource
        # a call that allocates without end fails with MemoryError instead of thrashing the machine.  The cap is on top of the address space
        # the worker already has, and small enough that ALL workers can reach it together without waking the kernel's OOM killer
        # (a killed pool worker loses its task silently).
        extra = float(os.environ.get("VERIF_CASE_MEM_GB", "4")) * 2 ** 30
        try:
            total = os.sysconf("SC_PAGE_SIZE") * os.sysconf("SC_PHYS_PAGES")
            extra = min(extra, 0.6 * total / max(1, NCPU))
        except (ValueError, OSError):
            pass
        with open("/proc/self/statm") as f:
            base = int(f.read().split()[0]) * os.sysconf("SC_PAGE_SIZE")
        cap = int(base + max(extra, 2 ** 30))
        resource.setrlimit(resource.RLIMIT_AS, (cap, cap))
    except Exception:
        pass
    try:
        bind_repo()
    except Exception:
        pass


class _CaseTimeout(BaseException):
    pass


def _on_alarm(signum, frame):
    raise _CaseTimeout()




def _count_hung():
    if _HUNG is not None:
        with _HUNG.get_lock():
            _HUNG.value += 1


def _call_chunk(argl):
    return [_call(a) for a in argl]


def _call(args):
    """One case on the real code, under a watchdog: a call of the library that does not return within the limit is reported
    (a rejection of the run: every property presupposes that the call returns), it never hangs the check."""
    import signal
    modname, fname, case = args[:3]
    limit = args[3] if len(args) > 3 else float(os.environ.get("VERIF_CASE_TIMEOUT", "150") or 150)
    if _HUNG is not None and _HUNG.value >= 4:
        return {"id": case.get("id"), "__notrun__": 1}       # the family is already rejected; the rest of this worker's chunk is not run
    try:
        mod = importlib.import_module(modname)
        old = signal.signal(signal.SIGALRM, _on_alarm)
        signal.setitimer(signal.ITIMER_REAL, limit)
        try:
            return getattr(mod, fname)(case)
        finally:
            signal.setitimer(signal.ITIMER_REAL, 0)
            signal.signal(signal.SIGALRM, old)
    except _CaseTimeout:
        _count_hung()
        return {"id": case.get("id"), "__timeout__": limit, "given": case.get("given", {}), "events": case.get("events", [])}
    except MemoryError:
        _count_hung()
        return {"id": case.get("id"), "__timeout__": "the memory cap", "given": case.get("given", {}), "events": case.get("events", [])}
    except MachineryError as e:
        return {"id": case.get("id"), "__machinery__": str(e)}
    except Exception:
        return {"id": case.get("id"), "__machinery__": traceback.format_exc()}


class Ctx:
    def __init__(self, prop, tier, seed):
        self.prop = prop
        self.tier = tier
        self.seed = seed
        self.t0 = time.time()
        self.states = 0
        self.transitions = 0
        self.mc_runs = []
        self.cases_judged = 0
        self.events_judged = 0
        self.events_skipped = 0
        self.mismatches = []       # dicts: key, case, ev, detail, module, driver, exec_fn
        self.samples = []
        self.families = {}         # family -> cases
        self.classes = set()       # distinct (family, op) pairs judged
        self.notes = []
        self.assumptions = []
        self.exhaustive = None
        self.extra = {}
        self.skipped_cases = []

    def clean_replays(self):
        if os.path.isdir(REPLAY_DIR):
            for f in os.listdir(REPLAY_DIR):
                if f.startswith(self.prop + "-"):
                    os.unlink(os.path.join(REPLAY_DIR, f))

    # ---------------------------------------------------------------- stage A
    def model_check(self, module, cfg, what=None, expect_violation=None, **kw):
        """Run TLC on a bounded model.  A violated invariant of the *intended* model is a
        machinery error (the model does not depend on the code); with expect_violation the
        named invariant/property MUST be violated (as-built deviation: non-vacuity)."""
        kw.setdefault("workers", NCPU)
        r = tlc.run_tlc(module, cfg, **kw)
        tlc.must_be_clean(r, module)
        if expect_violation:
            if not r.violated:
                raise MachineryError("%s/%s: expected a counterexample for %s, TLC found none"
                                     % (module, cfg, expect_violation))
        elif r.violated:
            raise MachineryError("%s/%s: model violates its own property %s\n%s"
                                 % (module, cfg, r.violated, r.counterexample))
        self.states += r.distinct
        self.transitions += r.generated
        self.mc_runs.append({"module": module, "cfg": os.path.basename(cfg), "what": what or "",
                             "states_generated": r.generated, "distinct": r.distinct,
                             "depth": r.depth, "wall_s": round(r.wall, 2),
                             "violated_as_expected": r.violated if expect_violation else []})
        return r

    # ---------------------------------------------------------------- stage B
    def execute(self, modname, fname, cases, procs=None, chunksize=8):
        """Run cases against the real code in fresh worker processes; returns observed cases."""
        procs = procs or NCPU
        if not cases:
            return []
        ctx = mp.get_context("fork")
        out, hung = [], []
        nhung = ctx.Value("i", 0)
        with ctx.Pool(min(procs, max(1, len(cases))), initializer=_init_worker, initargs=(nhung,)) as pool:
            argl = [(modname, fname, c) for c in cases]
            it = pool.imap(_call_chunk, [argl[i:i + chunksize] for i in range(0, len(argl), chunksize)])      # an IMapIterator: next() takes a timeout
            limit = float(os.environ.get("VERIF_CASE_TIMEOUT", "150") or 150)
            got, buf, stop = 0, [], False
            while not stop:
                if not buf:
                    try:
                        buf = list(it.next(timeout=limit * chunksize + 120))
                    except StopIteration:
                        break
                    except mp.TimeoutError:
                        buf = None
                if buf is None:
                    # the worker running this chunk died (killed from outside) or cannot answer: the first case whose answer is missing stands for it
                    hung.append({"id": cases[got]["id"], "__timeout__": "%d s for its chunk of %d cases (the worker process was lost)" % (limit * chunksize + 120, chunksize)})
                    pool.terminate()
                    break
                o = buf.pop(0)
                got += 1
                if isinstance(o, dict) and "__notrun__" in o:
                    continue
                if isinstance(o, dict) and "__timeout__" in o:
                    hung.append(o)
                    if len(hung) >= 4:
                        pool.terminate()          # enough evidence: the remaining cases of this family are not run
                        break
                    continue
                out.append(o)
        for o in out:
            if isinstance(o, dict) and "__machinery__" in o:
                raise MachineryError("driver failure on case %s:\n%s" % (o.get("id"), o["__machinery__"]))
        byid = {c["id"]: c for c in cases}
        for o in hung:
            self.mismatches.append({"key": "call/returns_within_the_case_time_limit/%s" % modname, "case": byid.get(o["id"], o), "ev": 0,
                                    "detail": "no answer within %s" % o["__timeout__"], "module": None, "cfg": None, "driver": modname,
                                    "exec_fn": fname, "family": "watchdog"})
        if hung:
            self.notes.append("%d case(s) did not return within %s (watchdog: seconds / memory); %d case(s) of the family were not run"
                              % (len(hung), hung[0]["__timeout__"], len(cases) - len(out) - len(hung)))
        return out

    # ---------------------------------------------------------------- stage C
    def judge(self, module, cfg, cases, family, driver=None, exec_fn=None, batch_events=4000,
              env=None):
        """Validate observed cases with the trace specification `module`.  Every event of every
        case must be consumed; MISMATCH records become candidate violations."""
        if not cases:
            return []
        batches, cur, n = [], [], 0
        for c in cases:
            cur.append(c)
            n += len(c["events"]) + 1
            if n >= batch_events:
                batches.append(cur)
                cur, n = [], 0
        if cur:
            batches.append(cur)
        byid = {}
        for c in cases:
            if c["id"] in byid:
                raise MachineryError("duplicate case id %s" % c["id"])
            byid[c["id"]] = c

        class _Unevaluable(object):
            """stands for the TLC result of a single case the specification could not even evaluate"""
            def __init__(self, case, why):
                nev = len(case["events"])
                self.records = [{"k": "MISMATCH", "case": case["id"], "ev": 0, "op": "trace", "clause": "trace_can_be_evaluated_by_the_specification",
                                 "cls": family, "detail": why},
                                {"k": "DONE", "cases": 1, "events": nev, "judged": nev, "skipped": 0}]
                self.generated = self.distinct = 0
                self.out = why

        def run_batch(batch):
            fd, path = tempfile.mkstemp(prefix="vf-trace-", suffix=".json")
            with os.fdopen(fd, "w") as f:
                json.dump(batch, f)
            try:
                e = {"TRACE_FILE": path}
                if env:
                    e.update(env)
                r = tlc.run_tlc(module, cfg, env=e, workers=1, timeout=3600, heap=os.environ.get("VERIF_TRACE_HEAP", "3g"))      # up to 16 validators run side by side
                tlc.must_be_clean(r, module + " (trace validation)")
                if r.violated:
                    raise MachineryError("trace spec %s violated %s" % (module, r.violated))
                return r
            finally:
                os.unlink(path)

        def one(batch):
            """A batch TLC cannot evaluate (an observed value outside the domain of a specification operator) is split; a single
            case that still cannot be evaluated is REJECTED (it is not a behaviour of the specification), not a machinery failure -
            unless nothing at all can be evaluated, which points at the specification itself."""
            try:
                return [(batch, run_batch(batch))]
            except MachineryError as ex:
                msg = str(ex)
                import re as _re
                killed = _re.search(r"\(rc=-\d+\)", msg) is not None or "OutOfMemoryError" in msg or "Cannot allocate memory" in msg
                if "Parsing or semantic analysis failed" in msg or "timed out" in msg or killed or (len(batch) == 1 and len(cases) == 1):
                    raise                     # the validator itself failed (killed, out of memory, timed out, does not parse): exit 2, never a verdict
                if len(batch) == 1:
                    why = next((l for l in msg.splitlines() if l.startswith("Error:") or "Attempted" in l or "exception" in l), msg[:200])
                    return [(batch, _Unevaluable(batch[0], why[:300]))]
                mid = len(batch) // 2
                return one(batch[:mid]) + one(batch[mid:])

        found = []
        with ThreadPoolExecutor(max_workers=NCPU) as ex:
            results = [x for part in ex.map(one, batches) for x in part]
        if results and all(isinstance(r, _Unevaluable) for _, r in results) and len(results) > 3:
            raise MachineryError("trace spec %s could not evaluate ANY case of family %s: %s" % (module, family, results[0][1].out))
        for batch, r in results:
            done = [x for x in r.records if x.get("k") == "DONE"]
            nev = sum(len(c["events"]) for c in batch)
            if len(done) != 1 or done[0].get("cases") != len(batch) or done[0].get("events") != nev:
                raise MachineryError("trace spec %s did not consume its batch: DONE=%s expected "
                                     "cases=%d events=%d\n%s" % (module, done, len(batch), nev, r.out[-2000:]))
            self.transitions += r.generated
            self.states += r.distinct
            self.cases_judged += len(batch)
            self.events_judged += done[0].get("judged", nev)
            self.events_skipped += done[0].get("skipped", 0)
            for x in r.records:
                if x.get("k") == "SKIP":
                    self.skipped_cases.append(x["case"])
                if x.get("k") == "MISMATCH":
                    c = byid[x["case"]]
                    key = "%s/%s/%s" % (x["op"], x["clause"], x["cls"])
                    m = {"key": key, "case": c, "ev": x["ev"], "detail": x.get("detail", ""),
                         "module": module, "cfg": cfg, "driver": driver, "exec_fn": exec_fn,
                         "family": family}
                    self.mismatches.append(m)
                    found.append(m)
        self.families[family] = self.families.get(family, 0) + len(cases)
        for c in cases:
            for e in c["events"]:
                self.classes.add((family, e.get("op")))
        if len(self.samples) < 6 and cases:
            c = cases[len(cases) // 2]
            self.samples.append({"family": family, "case": _shorten(c)})
        return found

    # ---------------------------------------------------------------- verdict
    def finish(self):
        import fnmatch
        known = load_findings(self.prop)
        open_entries = [e for e in known if e.get("status") == "open"]
        seen_known, unknown = {}, {}
        for m in self.mismatches:
            hit = next((e for e in open_entries if fnmatch.fnmatchcase(m["key"], e["key"])), None)
            if hit is not None:
                seen_known.setdefault(hit["key"], []).append(m)
            else:
                unknown.setdefault(m["key"], []).append(m)
        for e in open_entries:
            key = e["key"]
            if key in seen_known:
                print("KNOWN-FINDING: property=%s %s [key=%s, %d event(s) in this run]"
                      % (self.prop, e["what"], key, len(seen_known[key])))
            else:
                print("NOTE: listed finding %s (%s) was not reached by this run" % (key, self.prop))
        rc = 0
        for key, ms in sorted(unknown.items()):
            m = min(ms, key=lambda x: (len(x["case"]["events"]), x["ev"]))
            path = write_replay(self.prop, self.tier, self.seed, m)
            print("VIOLATION property=%s replay=%s" % (self.prop, path))
            print("  key=%s events=%d first: case=%s event#%s %s"
                  % (key, len(ms), m["case"]["id"], m["ev"], m["detail"]))
            rc = 1
        self.write_evidence(len(unknown), seen_known, known)
        print("%s %s seed=%d: model states=%d transitions=%d; cases judged=%d events=%d "
              "(skipped by precondition %d); known findings seen=%d; violations=%d; %.1fs"
              % (self.prop, self.tier, self.seed, self.states, self.transitions, self.cases_judged,
                 self.events_judged, self.events_skipped, len(seen_known), len(unknown),
                 time.time() - self.t0))
        return rc

    def write_evidence(self, nviol, seen_known, known):
        os.makedirs(EVIDENCE_DIR, exist_ok=True)
        samples = list(self.samples)
        for key, ms in seen_known.items():
            m = ms[0]
            samples.append({"known_finding": key, "case": _shorten(m["case"]), "event": m["ev"],
                            "detail": m["detail"]})
        if not samples:
            samples = [{"note": "no case was judged"}]
        ev = {
            "property_id": self.prop, "tier": self.tier, "seed": self.seed,
            "level": "model_checking",
            "coverage": {
                "states": max(1, self.states), "transitions": max(1, self.transitions),
                "traces_validated_against_impl": self.cases_judged,
                "samples": samples,
                "evaluations": self.events_judged,
                "distinct_nontrivial": len(self.classes),
                "rule": "evaluations = trace events judged by TLC against the specification; "
                        "distinct_nontrivial = distinct (input family, operation kind) pairs judged",
                "events_skipped_by_precondition": self.events_skipped,
                "families": self.families,
                "cases_outside_precondition": self.skipped_cases[:40],
                "model_runs": self.mc_runs,
                "known_findings_seen": sorted(seen_known),
                "fixed_findings_listed": sorted(e["key"] for e in known if e.get("status") == "fixed"),
            },
            "assumptions": self.assumptions,
            "wall_s": round(time.time() - self.t0, 2),
            "violations": nviol,
        }
        if self.exhaustive is not None:
            ev["coverage"]["exhaustive"] = bool(self.exhaustive)
        ev["coverage"].update(self.extra)
        if self.notes:
            ev["coverage"]["notes"] = self.notes
        with open(os.path.join(EVIDENCE_DIR, self.prop + ".json"), "w") as f:
            json.dump(ev, f, indent=1, default=str)


def _shorten(c, nev=12):
    d = dict(c)
    if len(d.get("events", [])) > nev:
        d["events"] = d["events"][:nev] + ["... %d more" % (len(c["events"]) - nev)]
    s = json.dumps(d, default=str)
    if len(s) > 4000:
        d = {"id": c.get("id"), "truncated": s[:3000]}
    return d


def write_replay(prop, tier, seed, m):
    os.makedirs(REPLAY_DIR, exist_ok=True)
    h = hashlib.sha1(m["key"].encode()).hexdigest()[:10]
    path = os.path.join(REPLAY_DIR, "%s-%s-%d.json" % (prop, h, seed))
    case = dict(m["case"])
    case["events"] = case["events"][: m["ev"]] if isinstance(m["ev"], int) and m["ev"] > 0 else case["events"]
    with open(path, "w") as f:
        json.dump({"property": prop, "key": m["key"], "tier": tier, "seed": seed,
                   "module": m["module"], "cfg": m["cfg"], "driver": m["driver"],
                   "exec_fn": m["exec_fn"], "family": m["family"], "rejected_event": m["ev"],
                   "detail": m["detail"], "case": case}, f, indent=1, default=str)
    return path


def replay(prop, path):
    """Re-execute the single case of a replay file against the current tree and judge it."""
    with open(path) as f:
        rp = json.load(f)
    ctx = Ctx(prop, rp.get("tier", "quick"), rp.get("seed", 0))
    case = rp["case"]
    if rp.get("module") is None:                 # a watchdog rejection: the case did not return
        bind_repo()
        with mp.get_context("fork").Pool(1, initializer=_init_worker) as pool:       # same caps as in the run
            o = pool.apply(_call, ((rp["driver"], rp["exec_fn"], case),))
        if isinstance(o, dict) and "__timeout__" in o:
            print("REPLAY: property=%s key=%s still rejected (no answer within %s)" % (prop, rp["key"], o["__timeout__"]))
            return 1
        print("REPLAY: property=%s key=%s accepted on the current tree (the case returns)" % (prop, rp["key"]))
        return 0
    if rp.get("driver") and rp.get("exec_fn"):
        bind_repo()
        mod = importlib.import_module(rp["driver"])
        case = getattr(mod, rp["exec_fn"])(case)
    found = ctx.judge(rp["module"], rp["cfg"], [case], rp.get("family", "replay"))
    import fnmatch
    keys = sorted({m["key"] for m in found})
    if any(fnmatch.fnmatchcase(k, rp["key"]) for k in keys):
        print("REPLAY: property=%s key=%s still rejected (%s)" % (prop, rp["key"], found[0]["detail"]))
        return 1
    if keys:
        print("REPLAY: property=%s original key accepted, but other rejections: %s" % (prop, keys))
        return 1
    print("REPLAY: property=%s key=%s accepted on the current tree" % (prop, rp["key"]))
    return 0
