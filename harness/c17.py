"""C17 - Tutte's embedding is a fold-free planar embedding onto the convex target.

Stage A  C17_MC: the square border assignment is injective, on the square and cyclically ordered for every border
         length 3..16 (the as-built variant collides after each corner); C08_MC guards the weights.
Stage B  TutteEmbedding on enumerated triangulated disks, lattice grids (cotangent weights rational), fans with
         chords, border lengths 3..16, both targets, both weightings, both storages; non-disks must be rejected.
Stage C  C17_Trace: border order from MeshCore, weighted-mean condition in fixed point, orientation signs computed
         exactly from the floats (Fraction) and only compared by TLC, storage agreement, Euler gate.
"""
import math
import random
from fractions import Fraction

import numpy as np

from c07 import rat
from vf import meshes


def _fix(x):
    return int(round(float(x) * 1000000))


def _sign_det(p, q, r):
    P, Q, R_ = [[Fraction(float(c)) for c in x] for x in (p, q, r)]
    d = (Q[0] - P[0]) * (R_[1] - P[1]) - (Q[1] - P[1]) * (R_[0] - P[0])
    return 1 if d > 0 else (-1 if d < 0 else 0)


def exec_case(case):
    import mouette as M
    g = dict(case["given"])
    events = []
    for ev in case["events"]:
        e = {"op": "tutte", "mode": ev["mode"], "cotan": ev["cotan"], "after_other": ev.get("after_other", 0), "via_custom": ev.get("via_custom", 0), "honoured": 1, "exc": "", "uvV": [], "uvC": [], "bq": [], "sg": []}
        try:
            m = meshes.build_surface(len(g["P"]), g["F"], coords=g["P"])
            g["E"] = [[int(a), int(b)] for a, b in m.edges]
            if ev.get("after_other", 0):
                # history: the same mesh object was embedded before with the OTHER weights (whatever that run left on the mesh must not leak)
                M.parametrization.TutteEmbedding(m, boundary_mode=ev["mode"], use_cotan=not bool(ev["cotan"]), save_on_corners=False).run()
            if ev.get("via_custom", 0):
                # the positions the circle mode would give, handed back as a custom boundary (row k belongs to mesh.boundary_vertices[k]): same embedding expected
                ref = M.parametrization.TutteEmbedding(meshes.build_surface(len(g["P"]), g["F"], coords=g["P"]), boundary_mode="circle", use_cotan=bool(ev["cotan"]), save_on_corners=False)
                ref.run()
                arr = np.array([[float(ref.uvs[int(v)][0]), float(ref.uvs[int(v)][1])] for v in m.boundary_vertices])
                tv = M.parametrization.TutteEmbedding(m, use_cotan=bool(ev["cotan"]), save_on_corners=False, custom_boundary=arr)
            else:
                tv = M.parametrization.TutteEmbedding(m, boundary_mode=ev["mode"], use_cotan=bool(ev["cotan"]), save_on_corners=False)
            tv.run()
            uv = [np.asarray(tv.uvs[i], dtype=float) for i in range(len(m.vertices))]
            if ev.get("via_custom", 0):        # row k of the custom array is the position of mesh.boundary_vertices[k]
                e["honoured"] = int(all(abs(uv[int(v)][0] - arr[k][0]) < 1e-12 and abs(uv[int(v)][1] - arr[k][1]) < 1e-12 for k, v in enumerate(m.boundary_vertices)))
            m2 = meshes.build_surface(len(g["P"]), g["F"], coords=g["P"])
            tc = M.parametrization.TutteEmbedding(m2, boundary_mode=ev["mode"], use_cotan=bool(ev["cotan"]), save_on_corners=True,
                                                  **({"custom_boundary": arr} if ev.get("via_custom", 0) else {}))
            tc.run()
            e["uvV"] = [[_fix(p[0]), _fix(p[1])] for p in uv]
            e["uvC"] = [[_fix(tc.uvs[c][0]), _fix(tc.uvs[c][1])] for c in range(len(m2.face_corners))]
            if ev["mode"] == "square":
                e["bq"] = [[rat(p[0]), rat(p[1])] for p in uv]
            else:
                e["bq"] = [[rat(p[0] ** 2 + p[1] ** 2), rat(math.atan2(p[1], p[0]) / math.pi, 64)] for p in uv]
            e["sg"] = [_sign_det(uv[f[0]], uv[f[1]], uv[f[2]]) for f in g["F"]]
        except Exception as ex:
            e["exc"] = type(ex).__name__ + ":" + str(ex)[:70]
            if "E" not in g:
                mm = meshes.build_surface(len(g["P"]), g["F"], coords=g["P"])
                g["E"] = [[int(a), int(b)] for a, b in mm.edges]
        events.append(e)
    return {"id": case["id"], "given": g, "events": events}


def fan(n, chords=0):
    """a disk: hub + n rim vertices (border length n); lattice-free coordinates are irrelevant for uniform weights"""
    P = [[0, 0, 0]] + [[int(round(10 * math.cos(2 * math.pi * k / n))), int(round(10 * math.sin(2 * math.pi * k / n))), 0] for k in range(n)]
    F = [[0, 1 + k, 1 + (k + 1) % n] for k in range(n)]
    return P, F


def rings(shift):
    """a disk of 41 vertices: hub, rings of 8, 16 and 16 (the border); `shift` rotates the numbering so that the border ids can be the last, the first, ..."""
    ring = lambda n, r: [[int(round(r * 100 * math.cos(2 * math.pi * k / n))), int(round(r * 100 * math.sin(2 * math.pi * k / n))), 0] for k in range(n)]
    P = [[0, 0, 0]] + ring(8, 1) + ring(16, 2) + ring(16, 3)
    r1, r2, r3 = list(range(1, 9)), list(range(9, 25)), list(range(25, 41))
    F = [[0, r1[i], r1[(i + 1) % 8]] for i in range(8)]
    for i in range(8):
        F += [[r1[i], r2[2 * i], r2[2 * i + 1]], [r1[i], r2[2 * i + 1], r1[(i + 1) % 8]], [r1[(i + 1) % 8], r2[2 * i + 1], r2[(2 * i + 2) % 16]]]
    for j in range(16):
        F += [[r2[j], r3[j], r3[(j + 1) % 16]], [r2[j], r3[(j + 1) % 16], r2[(j + 1) % 16]]]
    n = len(P)
    perm = [(v + shift) % n for v in range(n)]
    P2 = [None] * n
    for old, new in enumerate(perm):
        P2[new] = P[old]
    return P2, [[perm[v] for v in f] for f in F]


def strip(n):
    """a triangulated strip with border length n and NO interior vertex: every interior edge joins two border vertices"""
    P = [[k // 2, k % 2, 0] for k in range(n)]
    F = []
    for k in range(n - 2):
        F.append([k, k + 1, k + 2] if k % 2 == 0 else [k + 1, k, k + 2])
    return P, F


def run(ctx):
    import c09
    rng = random.Random(ctx.seed)
    thorough = ctx.tier == "thorough"
    ctx.model_check("C17_MC", "C17_MC.cfg", "square border assignment injective / on the square / cyclically ordered for n = 3..16")
    if thorough:
        ctx.model_check("C17_MC", "C17_MC_asbuilt.cfg", "as-built offsets collide after each corner", expect_violation="SquareAssignmentOk")
    r_enum = ctx.model_check("MeshEnum", "MeshEnum_tri.cfg", "all oriented manifold triangle complexes (<= 6 vertices, <= 5 faces)")
    enum = [x for x in r_enum.records if x.get("k") == "M"]
    shapes = []
    for x in (enum if thorough else rng.sample(enum, min(len(enum), 150))):
        P = []
        seen = set()
        while len(P) < x["nv"]:
            p = (rng.randint(0, 6), rng.randint(0, 6), 0)
            if p not in seen:
                seen.add(p)
                P.append(list(p))
        shapes.append(("E", P, [list(f) for f in x["F"]]))
    for nu, nv_, sx, sy in [(3, 3, 1, 1), (4, 3, 1, 1), (3, 4, 3, 4), (4, 4, 1, 1), (5, 3, 2, 1)] + ([(5, 5, 1, 1), (6, 4, 1, 1)] if thorough else []):
        P, F = c09._grid_surface(nu, nv_, sx, sy, True)
        shapes.append(("lattice", P, F))
    for n in range(3, 17):
        P, F = fan(n)
        shapes.append(("fan-border%d" % n, P, F))
    for n in (4, 5, 6, 7, 9):
        P, F = strip(n)
        shapes.append(("strip", P, F))
    # the enumerated complex with the placement on which a cotangent weight of an interior edge is exactly zero (the listed open finding):
    # pinned, so that every tier exercises it whatever the sample drawn above
    shapes.append(("E-pinned", [[4, 2, 0], [3, 2, 0], [0, 3, 0], [2, 2, 0], [3, 3, 0], [2, 0, 0]], [[0, 1, 4], [0, 4, 5], [0, 5, 1], [1, 2, 4], [2, 3, 4]]))
    tor = c09._grid_surface(3, 3, 1, 1, True)
    shapes.append(("closed-cube", [[0, 0, 0], [2, 0, 0], [2, 2, 0], [0, 2, 0], [0, 0, 2], [2, 0, 2], [2, 2, 2], [0, 2, 2]],
                   [[0, 2, 1], [0, 3, 2], [0, 1, 5], [0, 5, 4], [1, 2, 6], [1, 6, 5], [2, 3, 7], [2, 7, 6], [3, 0, 4], [3, 4, 7], [4, 5, 6], [4, 6, 7]]))
    shapes.append(("annulus", [[0, 0, 0], [6, 0, 0], [3, 6, 0], [2, 1, 0], [4, 1, 0], [3, 3, 0]], [[0, 1, 3], [1, 4, 3], [1, 2, 4], [2, 5, 4], [2, 0, 5], [0, 3, 5]]))
    for sh in (0, 20):
        P, F = rings(sh)
        shapes.append(("rings-shift%d" % sh, P, F))
    cases = []
    for i, (fam, P, F) in enumerate(shapes):
        evs = [{"mode": md, "cotan": ct, "after_other": ao} for md in ("circle", "square") for ct in (0, 1) for ao in (0, 1) if ao == 0 or ct == 0 or md == "circle"]
        evs += [{"mode": "circle", "cotan": ct, "after_other": 0, "via_custom": 1} for ct in ((0, 1) if fam.startswith("rings") or i % 4 == 0 else ())]
        cases.append({"id": "%s-%d" % (fam, i), "given": {"P": P, "F": F, "family": fam.split("-")[0]}, "events": evs})
    obs = ctx.execute("c17", "exec_case", cases, chunksize=4)
    ctx.judge("C17_Trace", "C17_Trace.cfg", obs, "tutte", "c17", "exec_case", batch_events=60)
    ctx.exhaustive = False
    ctx.assumptions += [
        "custom boundaries: only the positions the circle mode would give, handed back in mesh.boundary_vertices order (the same embedding is expected)",
        "the weighted-mean condition is judged in fixed point (10^-6) and, for cotangent weights, only where they are multiples of 1/2 (lattice right triangles)",
        "orientation signs are computed exactly from the returned floats (Fraction) by the harness; TLC only demands that they are equal and non-zero",
        "conditioning of the sparse solve on large meshes is not decided",
    ]
