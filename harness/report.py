"""Regenerates the generated part of DESIGN.md (between the GENERATED markers of section 10) from the committed facts:
evidence/*.json (what the last run on the unchanged tree covered), known_findings.json, seeded/*/meta.json, MANIFEST.json."""
import glob
import json
import os
import re

VERIF = os.path.dirname(os.path.dirname(os.path.abspath(__file__)))


def load(p):
    with open(p) as f:
        return json.load(f)


def main():
    out = []
    man = load(os.path.join(VERIF, "MANIFEST.json"))
    kf = load(os.path.join(VERIF, "known_findings.json"))["findings"]
    out.append("### 10.1 What each check covered on its last run on the unchanged tree (from `evidence/`)\n")
    out.append("| id | tier | TLC states (models + trace walks) | model runs | cases / events judged by TLC against the real code | skipped by precondition | open findings seen | wall |")
    out.append("|---|---|---|---|---|---|---|---|")
    for pid in ["C%02d" % i for i in range(1, 21)]:
        p = os.path.join(VERIF, "evidence", pid + ".json")
        if not os.path.exists(p):
            continue
        e = load(p)
        c = e["coverage"]
        runs = c.get("model_runs", [])
        out.append("| %s | %s | %s | %s | %s / %s | %s | %s | %s s |" % (
            pid, e.get("tier"), c.get("states"), "; ".join("%s/%s: %s" % (r["module"], r["cfg"].replace(".cfg", ""), r["distinct"]) for r in runs)[:300],
            c.get("traces_validated_against_impl"), c.get("evaluations"), c.get("events_skipped_by_precondition"),
            len(c.get("known_findings_seen", [])), e.get("wall_s", e.get("duration_s", "?"))))
    out.append("")
    out.append("### 10.2 Defects of mouette repaired (one `fix:` commit each in /repo; entries of `known_findings.json` with status `fixed`)\n")
    out.append("| property | commit | what failed |")
    out.append("|---|---|---|")
    for f in kf:
        if f["status"] == "fixed":
            what = re.sub(r"^fixed: property=\S+ \S+ ", "", f["what"])
            out.append("| %s | `%s` | %s |" % (f["property"], f.get("commit", ""), what.replace("|", "/")))
    out.append("")
    out.append("### 10.3 Defects recorded, not repaired (status `open`: printed as KNOWN-FINDING, exit 0)\n")
    out.append("| property | finding key (fnmatch pattern over op/clause/class) | what fails | replay |")
    out.append("|---|---|---|---|")
    for f in kf:
        if f["status"] == "open":
            out.append("| %s | `%s` | %s | `%s` |" % (f["property"], f["key"], f["what"].replace("|", "/"), os.path.basename(f.get("replay", ""))))
    out.append("")
    out.append("### 10.4 Seeded changes (written by sub-agents that saw only the property text) and the checks that catch them\n")
    out.append("| seed | what it needs to manifest (first line of the author's notes) | quick check of its property | first rejected clauses |")
    out.append("|---|---|---|---|")
    for d in sorted(glob.glob(os.path.join(VERIF, "seeded", "*"))):
        mp = os.path.join(d, "meta.json")
        if not os.path.exists(mp):
            continue
        m = load(mp)
        notes = [l.strip("-# ").strip() for l in m.get("needs_to_manifest", "").splitlines() if l.strip() and not l.startswith("#")]
        first = (notes[0] if notes else "")[:230]
        r = m.get("runs", {}).get("quick", {})
        verdict = "exit 1, %d VIOLATION line(s)" % r.get("violation_lines", 0) if r.get("detected") else "not detected"
        if m.get("detected_by_other_property"):
            verdict += "; detected by %s" % m["detected_by_other_property"]["property"]
        keys = "; ".join("/".join(k.replace("key=", "").split("/")[:2]) for k in r.get("first_keys", [])[:2])
        out.append("| %s | %s | %s | %s |" % (os.path.basename(d), first.replace("|", "/"), verdict, keys))
    text = "\n".join(out) + "\n"
    p = os.path.join(VERIF, "DESIGN.md")
    s = open(p).read()
    a, b = "<!-- GENERATED:BEGIN -->", "<!-- GENERATED:END -->"
    if a in s and b in s:
        s = s[:s.index(a) + len(a)] + "\n" + text + s[s.index(b):]
        open(p, "w").write(s)
        print("DESIGN.md section 10 regenerated (%d lines)" % len(out))
    else:
        print(text)


if __name__ == "__main__":
    main()
