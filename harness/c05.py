"""C05 - attributes are total maps with defaults; sparse and dense storage agree.

Stage A  C05_MC: implementation-shaped model of both storages (dict + one default object; numpy
         array + n_elem) refining the abstract total map; invariants TotalMap, Aligned,
         SparseDenseAgree, DenseOutOfBounds, NoCrossAliasing.  One history per transition.
Stage B  each history drives a real DataContainer with a sparse attribute "s" and a dense "d".
Stage C  C05_Trace judges every call result and the full read-back of both attributes.
"""
import random

import numpy as np

PYTYPE = {"bool": bool, "int": int, "float": float, "complex": complex, "str": str}
CONFIGS = {
    "float2": ("float", 2, ["0", "0"]), "int1": ("int", 1, ["5"]), "str1": ("str", 1, ["s:"]),
    "bool1": ("bool", 1, ["0"]), "complex3": ("complex", 3, ["0", "0", "0"]),
}
POOL = {
    "float2": [("float", 2, ["1.5", "-2"]), ("int", 2, ["7", "8"]), ("bool", 2, ["1", "0"]), ("str", 2, ["s:x", "s:y"]),
               ("float", 3, ["1.5", "2.5", "3.5"]), ("float", 0, ["4.5"]), ("complex", 2, ["1+2j", "3j"]),
               ("float", 2, ["0.25", "1e+300"]), ("float", 1, ["2.5"])],
    "int1": [("int", 0, ["3"]), ("bool", 0, ["1"]), ("float", 0, ["2.5"]), ("int", 2, ["1", "2"]), ("str", 0, ["s:no"]),
             ("int", 0, ["-7"]), ("complex", 0, ["2j"]), ("float", 0, ["5"]), ("complex", 0, ["5"]), ("float", 0, ["0"]), ("int", 0, ["5"])],     # values EQUAL to the default, of a narrower / wider type
    "str1": [("str", 0, ["s:hello"]), ("str", 0, ["s:"]), ("int", 0, ["3"]), ("bool", 0, ["1"]), ("str", 0, ["s:a b"])],
    "bool1": [("bool", 0, ["1"]), ("int", 0, ["1"]), ("float", 0, ["1"]), ("bool", 0, ["0"]), ("int", 0, ["0"]), ("float", 0, ["0"])],
    "complex3": [("complex", 3, ["1+2j", "-1j", "0"]), ("float", 3, ["1.5", "2", "3"]), ("complex", 2, ["1+2j", "3j"]),
                 ("complex", 0, ["1j"])],
}


def _num(r):
    r = float(r)
    if r == int(r) and abs(r) < 1e15:
        return str(int(r))
    return repr(r)


def atom(x):
    if isinstance(x, (str, np.str_)):
        return "s:" + str(x)
    c = complex(x)
    if c.imag == 0:
        return _num(c.real)
    if c.real == 0:
        return _num(c.imag) + "j"
    return _num(c.real) + ("+" if c.imag > 0 else "") + _num(c.imag) + "j"


def atoms(v):
    if np.ndim(v) == 0:
        return [atom(v)]
    return [atom(x) for x in v]


def pyatom(vt, a):
    if vt == "bool":
        return a == "1"
    if vt == "int":
        return int(a)
    if vt == "float":
        return float(a)
    if vt == "complex":
        return complex(a)
    return a[2:]


def pyval(vt, va, v):
    xs = [pyatom(vt, a) for a in v]
    return xs[0] if va == 0 else xs


def _exc(f):
    try:
        f()
        return ""
    except Exception as ex:
        return type(ex).__name__


def exec_case(case):
    from mouette.mesh.data_container import DataContainer
    g = case["given"]
    at, k, dflt = g["at"], g["k"], g["dflt"]
    tdef = ["s:" if at == "str" else "0"] * k
    custom = None if list(dflt) == tdef else pyval(at, 0, dflt)
    box = {"c": None}

    def create():
        c = box["c"]
        c.create_attribute("s", PYTYPE[at], k, dense=False, default_value=custom)
        c.create_attribute("d", PYTYPE[at], k, dense=True, default_value=custom)

    def proj():
        c = box["c"]
        s, d = c.get_attribute("s"), c.get_attribute("d")

        def rd(a, i):
            try:
                return atoms(a[i])
            except Exception as ex:
                return ["!" + type(ex).__name__]
        return {"size": len(c), "nelem": len(d), "rs": [rd(s, i) for i in range(len(c))],
                "rd": [rd(d, i) for i in range(len(c))]}

    events = []
    for ev in case["events"]:
        op = ev["op"]
        e = dict((kk, ev[kk]) for kk in ev if kk in ("op", "i", "j", "n", "vt", "va", "v", "x"))
        e.setdefault("exc", "")
        c = box["c"]
        if op == "init":
            box["c"] = DataContainer(list(range(100, 100 + ev["n"])), id="verif")
            e["exc"] = _exc(create)
        elif op == "set":
            val = pyval(ev["vt"], ev["va"], ev["v"])
            s, d = c.get_attribute("s"), c.get_attribute("d")
            e["es"] = _exc(lambda: s.__setitem__(ev["i"], val))
            e["ed"] = _exc(lambda: d.__setitem__(ev["i"], val))
        elif op == "probe":
            d = c.get_attribute("d")
            e["eg"] = _exc(lambda: d[ev["i"]])
            e["est"] = ""
            if not (0 <= ev["i"] < len(c)):
                dv = pyval(at, 0 if k == 1 else k, tdef)
                e["est"] = _exc(lambda: d.__setitem__(ev["i"], dv))
        elif op == "copy_entry":
            def cp():
                for name in ("s", "d"):
                    a_ = c.get_attribute(name)
                    a_[ev["j"]] = a_[ev["i"]]
            e["exc"] = _exc(cp)
        elif op == "inplace":
            def poke():
                x = pyatom("complex" if at == "complex" else "float", ev["x"])
                for name in ("s", "d"):
                    v = c.get_attribute(name)[ev["i"]]
                    v[0] = x
            e["exc"] = _exc(poke)
        elif op == "append":
            e["exc"] = _exc(lambda: c.append(555))
        elif op == "extend_list":
            def ext():
                cc = box["c"]
                cc += [600 + j for j in range(ev["n"])]
            e["exc"] = _exc(ext)
        elif op == "extend_container":
            def extc():
                cc = box["c"]
                cc += DataContainer([700 + j for j in range(ev["n"])])
            e["exc"] = _exc(extc)
        elif op == "clear":
            e["exc"] = _exc(lambda: (c.get_attribute("s").clear(), c.get_attribute("d").clear()))
        elif op == "recreate":
            def rec():
                c.delete_attribute("s")
                c.delete_attribute("d")
                create()
            e["exc"] = _exc(rec)
        elif op == "as_array":
            e["fs"], e["fd"] = [], []

            def arr():
                e["fs"] = [atom(x) for x in np.ravel(c.get_attribute("s").as_array(len(c)))]
                e["fd"] = [atom(x) for x in np.ravel(c.get_attribute("d").as_array(len(c)))]
            e["exc"] = _exc(arr)
        else:
            raise ValueError("unknown op %s" % op)
        e["proj"] = proj()
        events.append(e)
    return {"id": case["id"], "given": g, "events": events}


def _random_case(rng, i):
    cfg = rng.choice(sorted(CONFIGS))
    at, k, dflt = CONFIGS[cfg]
    size = rng.randint(0, 3)
    evs = [{"op": "init", "n": size}]
    for _ in range(rng.randint(20, 60)):
        r = rng.random()
        if r < 0.35 and size > 0:
            vt, va, v = rng.choice(POOL[cfg])
            evs.append({"op": "set", "i": rng.randrange(size), "vt": vt, "va": va, "v": v})
        elif r < 0.5:
            evs.append({"op": "probe", "i": rng.randint(-2, size + 2)})
        elif r < 0.6 and size > 0 and k > 1:
            evs.append({"op": "inplace", "i": rng.randrange(size), "x": "9j" if at == "complex" else "9.5"})
            if size >= 2 and rng.random() < 0.5:
                # a value read from one entry is written to another, then the first is updated in place: the second must not follow
                src_i, dst_j = rng.sample(range(size), 2)
                evs.append({"op": "copy_entry", "i": src_i, "j": dst_j})
                evs.append({"op": "inplace", "i": src_i, "x": "7j" if at == "complex" else "7.25"})
        elif r < 0.75 and size < 12:
            n = rng.randint(1, 3)
            op = rng.choice(["append", "extend_list", "extend_container"])
            n = 1 if op == "append" else n
            evs.append({"op": op, "n": n})
            size += n
        elif r < 0.8:
            evs.append({"op": "clear"})
        elif r < 0.85:
            evs.append({"op": "recreate"})
        else:
            evs.append({"op": "as_array"})
    return {"id": "rnd-%d" % i, "given": {"cfg": cfg, "at": at, "k": k, "dflt": dflt}, "events": evs}


def run(ctx):
    rng = random.Random(ctx.seed)
    thorough = ctx.tier == "thorough"
    r = ctx.model_check("C05_MC", "C05_MC_thorough.cfg" if thorough else "C05_MC.cfg",
                        "storages refine the total map; aligned; agree; out-of-bounds; no cross aliasing")
    if thorough:
        for dev, inv in (("dense_bound_gt", "DenseOutOfBounds"), ("shared_default", "TotalMapS"),
                         ("container_iadd", "Aligned")):
            ctx.model_check("C05_MC", "C05_MC_asbuilt_%s.cfg" % dev, "as-built deviation %s must violate %s" % (dev, inv),
                            expect_violation=inv)
    cases = []
    for i, x in enumerate(h for h in r.records if h.get("k") == "H" and len(h["h"]) > 1):
        cases.append({"id": "mc-%d" % i, "given": {"cfg": x["cfg"], "at": x["at"], "k": x["ar"], "dflt": x["dflt"]},
                      "events": x["h"]})
    rnd = [_random_case(rng, i) for i in range(600 if thorough else 120)]
    obs = ctx.execute("c05", "exec_case", cases + rnd, chunksize=64)
    ctx.judge("C05_Trace", "C05_Trace.cfg", obs[:len(cases)], "transition-cover", "c05", "exec_case")
    ctx.judge("C05_Trace", "C05_Trace.cfg", obs[len(cases):], "random-histories", "c05", "exec_case")
    ctx.exhaustive = False
    ctx.assumptions += [
        "bounded model: container size <= 3, history depth 4 (quick) / 5 (thorough), five type/arity configurations",
        "values compare by Python == (True, 1, 1.0 agree); strings shorter than 32 characters; custom default only for arity 1",
        "sparse writes only at in-range indices (the sparse storage has no bound to report); out-of-range indices are probed on the dense storage",
        "after an in-place update of a read value the entry itself may or may not follow; only the other entries are constrained",
    ]
