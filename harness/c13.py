"""C13 - subdivision refines a mesh without changing its shape or topology.

Stage A  C13_MC: the editing block as a state machine over shared containers (InputIntact,
         ResultValid); one history per transition.  MeshEnum supplies every small manifold complex.
Stage B  every block history is executed on real meshes (enumerated complexes with random lattice
         embeddings, planar lattice grids, library shapes), with or without connectivity queried
         before; the editor's (V, F) is recorded after every operation, the result and the input
         object after the block.  Polylines: split_edge on every edge.  Volumes: see c13 volume part.
Stage C  C13_Trace judges counts / validity / chi / loops / components / vector area / vertex
         positions per operation and the input-object clause; C01_Trace judges all connectivity
         answers of the result object and of the input object afterwards.
"""
import random
from fractions import Fraction

import c01
from vf import meshes

IN_PLACE = ["triangulate_face", "split_face_as_fan", "triangulate"]
REPLACE = ["loop_subdivision", "subdivide_triangles_3quads", "subdivide_triangles_6"]
INPUT_AFTER_Q = ["opposite_corner", "vertex_to_faces", "face_to_corners", "boundary_edges", "vertex_to_vertices", "edge_id", "is_quad", "is_triangular",
                 "interior_vertices", "is_edge_on_border"]


def rat(x):
    fr = Fraction(float(x)).limit_denominator(100000)
    if abs(float(fr) - float(x)) > 1e-10 * (1 + abs(float(x))):
        return [0, 0]
    return [fr.numerator, fr.denominator]


def V_of(container):
    return [[rat(c) for c in container[i]] for i in range(len(container))]


def L_of(container):
    return [[int(v) for v in x] for x in container]


def proj(m):
    return {"V": V_of(m.vertices), "F": L_of(m.faces), "E": sorted(sorted(e) for e in L_of(m.edges)),
            "Cv": [int(x) for x in m.face_corners._elem], "Cf": [int(x) for x in m.face_corners._adj]}


def _c01_case(cid, m, family, kinds, rng):
    """C01-format case from a LIVE mesh object (queries are answered by that object itself)."""
    faces = L_of(m.faces)
    nv = len(m.vertices)
    events = []
    for op in kinds:
        e = {"op": op, "args": [], "ret": [], "exc": ""}
        try:
            e["args"], e["ret"] = c01.query(m, op, nv, faces, random.Random(rng.random()))
        except Exception as ex:
            e["exc"] = type(ex).__name__
        events.append(e)
    return {"id": cid, "given": {"nv": nv, "F": faces, "E": L_of(m.edges), "sorted": 1, "family": family}, "events": events}


def exec_surface(case):
    import mouette as M
    from mouette.mesh.subdivision import SurfaceSubdivision
    g = case["given"]
    rng = random.Random(hash(case["id"]) & 0xFFFFFF)
    coords = [[Fraction(a, b) for a, b in p] for p in g["V"]]
    m = meshes.build_surface(len(coords), g["F"], coords=[[float(c) for c in p] for p in coords])
    queried = 0
    ops = [ev for ev in case["events"] if ev["op"] not in ("enter", "exit", "query_before")]
    if any(ev["op"] == "query_before" for ev in case["events"]):
        queried = 1
        for q in ("vertex_to_faces", "opposite_corner", "boundary_vertices", "edge_id", "is_quad", "is_triangular"):     # every answer the mesh memoises
            c01.query(m, q, len(coords), g["F"], rng)
    if any(ev["op"] == "split_ears" for ev in case["events"]):
        # the stand-alone helper that fan-splits every triangle with a vertex of degree 2 (two border edges), on the mesh in place
        from mouette.mesh.subdivision import split_double_boundary_edges_triangles
        e = {"op": "split_ears", "exc": "", "f": 0, "n": 1, "V": [], "F": []}
        try:
            r = split_double_boundary_edges_triangles(m)
            e["V"], e["F"] = V_of(r.vertices), L_of(r.faces)
        except Exception as ex:
            e["exc"] = type(ex).__name__ + ":" + str(ex)[:60]
        return {"id": case["id"], "given": g, "events": [e], "c01": []}
    before = proj(m)
    events = []
    ed = SurfaceSubdivision(m)
    ed.__enter__()
    events.append({"op": "enter", "exc": ""})
    aborted = 0
    for ev in ops:
        e = {"op": ev["op"], "exc": "", "f": ev.get("f", 0), "n": ev.get("n", 1)}
        if aborted:
            break
        nf = len(ed.mesh.faces)
        if nf > 40 and ev["op"] in REPLACE:
            continue                      # size guard of the harness: the operation is not issued at all
        e["f"] = e["f"] % max(1, nf)
        try:
            if ev["op"] in ("triangulate_face", "split_face_as_fan"):
                getattr(ed, ev["op"])(e["f"])
            elif ev["op"] in ("loop_subdivision", "subdivide_triangles_6"):
                getattr(ed, ev["op"])(e["n"])
            else:
                getattr(ed, ev["op"])()
        except Exception as ex:
            e["exc"] = type(ex).__name__ + ":" + str(ex)[:60]
            aborted = 1
        e["V"], e["F"] = V_of(ed.mesh.vertices), L_of(ed.mesh.faces)
        events.append(e)
    x = {"op": "exit", "exc": "", "aborted": aborted, "queried": queried,
         "opsclass": "+".join(sorted({("in_place" if o["op"] in IN_PLACE else "replace") for o in ops})) or "none"}
    extra = []
    try:
        ed.__exit__(None, None, None)
        res = ed.mesh
        x["V"], x["F"], x["E"] = V_of(res.vertices), L_of(res.faces), L_of(res.edges)
        x["result_proj"] = proj(res)
    except Exception as ex:
        x["exc"] = type(ex).__name__ + ":" + str(ex)[:60]
        x["V"], x["F"], x["E"], x["result_proj"] = [], [], [], {}
        res = None
    x["input_before"], x["input_after"] = before, proj(m)
    if aborted:
        x["op"] = "exit"
    events.append(x)
    if res is not None and not aborted:
        kinds = list(c01.ALL_Q)
        rng.shuffle(kinds)
        extra.append(_c01_case(case["id"] + "/result", res, "subdiv-result", kinds, rng))
        extra.append(_c01_case(case["id"] + "/input", m, "subdiv-input-after/" + x["opsclass"] + ("/queried_before" if queried else "/fresh"),
                               INPUT_AFTER_Q, rng))
    if aborted:
        events = events[:-1]          # the block was left by an exception: nothing more is judged
    return {"id": case["id"], "given": g, "events": events, "c01": extra}


def exec_polyline(case):
    import numpy as np
    import mouette as M
    from mouette.mesh.subdivision import split_edge
    g = case["given"]
    pts = np.array([[float(Fraction(a, b)) for a, b in p] for p in g["V"]])
    pl = M.procedural.chain_of_vertices(pts, loop=bool(g.get("loop", 0)))
    given = dict(g)
    given["E"] = L_of(pl.edges)
    given["F"] = []
    events = []
    for ev in case["events"]:
        e = {"op": "split_edge", "i": ev["i"] % len(pl.edges), "exc": ""}
        try:
            out = split_edge(pl, e["i"])
            pl = out if out is not None else pl
        except Exception as ex:
            e["exc"] = type(ex).__name__
        e["V"], e["E"] = V_of(pl.vertices), L_of(pl.edges)
        events.append(e)
    return {"id": case["id"], "given": given, "events": events, "c01": []}


def projv(m):
    def cor(c):
        el, ad = list(c._elem), list(c._adj)
        return [[int(el[i]), int(ad[i]) if i < len(ad) else -1] for i in range(len(el))]
    return {"V": V_of(m.vertices), "C": L_of(m.cells), "F": L_of(m.faces), "E": sorted(sorted(e) for e in L_of(m.edges)),
            "cc": cor(m.cell_corners), "cf": cor(m.cell_faces), "fc": cor(m.face_corners)}


def _c03_case(cid, m, P, family, kinds, rng):
    import c03
    g = {"P": P, "C": L_of(m.cells), "F": L_of(m.faces), "E": L_of(m.edges), "nv": len(m.vertices), "sorted": 1, "family": family}
    events = []
    for op in kinds:
        e = {"op": op, "args": [], "ret": [], "exc": ""}
        try:
            e["args"], e["ret"], b = c03.query(m, op, g, random.Random(rng.random()))
            if b is not None:
                e["b"] = b
        except Exception as ex:
            e["exc"] = type(ex).__name__ + ":" + str(ex)[:60]
        events.append(e)
    return {"id": cid, "given": g, "events": events}


def exec_volume(case):
    import c03
    import mouette as M
    from mouette.mesh.subdivision import VolumeSubdivision
    g = case["given"]
    rng = random.Random(hash(case["id"]) & 0xFFFFFF)
    P = [[int(Fraction(a, b)) for a, b in p] for p in g["V"]]
    m = c03.build_volume({"P": P, "C": g["C"], "container": "list"})
    queried = 0
    if any(ev["op"] == "query_before" for ev in case["events"]):
        queried = 1
        for q in ("cell_to_cell", "boundary_faces", "edge_to_cell"):
            c03.query(m, q, None, rng)
    before = projv(m)
    ed = VolumeSubdivision(m)
    ed.__enter__()
    events = [{"op": "enter", "exc": ""}]
    aborted = 0
    for ev in case["events"]:
        if ev["op"] not in ("split_cell_as_fan", "split_tet_from_face_center") or aborted:
            continue
        e = {"op": ev["op"], "exc": "", "c": 0, "fv": []}
        try:
            if ev["op"] == "split_cell_as_fan":
                e["c"] = ev["k"] % len(ed.mesh.cells)
                ed.split_cell_as_fan(e["c"])
            else:
                # face ids refer to the mesh the editor was opened on (its connectivity is used by the operation)
                fid = ev["k"] % len(before["F"])
                e["fv"] = before["F"][fid]
                ed.split_tet_from_face_center(fid)
        except Exception as ex:
            e["exc"] = type(ex).__name__ + ":" + str(ex)[:60]
            aborted = 1
        e["V"], e["C"] = V_of(ed.mesh.vertices), L_of(ed.mesh.cells)
        events.append(e)
    extra = []
    if not aborted:
        x = {"op": "exit", "exc": "", "queried": queried}
        try:
            ed.__exit__(None, None, None)
            res = ed.mesh
            x["V"], x["C"], x["F"], x["E"] = V_of(res.vertices), L_of(res.cells), L_of(res.faces), L_of(res.edges)
            x["result_proj"] = projv(res)
        except Exception as ex:
            x["exc"] = type(ex).__name__ + ":" + str(ex)[:60]
            x["V"], x["C"], x["F"], x["E"], x["result_proj"] = [], [], [], [], {}
            res = None
        x["input_before"], x["input_after"] = before, projv(m)
        events.append(x)
        names = [ev["op"] for ev in case["events"]]
        mixed = any(names[j] == "split_tet_from_face_center" and "split_cell_as_fan" in names[:j] for j in range(len(names)))
        if res is not None and not mixed:         # (a face split after a cell split is judged by the block's own events only: known finding)
            Pz = [[0, 0, 0]] * len(res.vertices)      # coordinates are not integral any more: orientation clauses are not used
            kinds = [k for k in c03.ALL_Q if k not in c03.BND_Q]
            rng.shuffle(kinds)
            extra.append(_c03_case(case["id"] + "/result", res, Pz, "subdiv-result", kinds, rng))
            extra.append(_c03_case(case["id"] + "/input", m, Pz, "subdiv-input-after" + ("/queried_before" if queried else "/fresh"),
                                   ["face_to_cells", "cell_to_face", "boundary_faces", "vertex_to_cell", "edge_to_cell"], rng))
    return {"id": case["id"], "given": g, "events": events, "c03": extra}


def _lattice_coords(rng, n, planar=False):
    seen, out = set(), []
    while len(out) < n:
        p = (rng.randint(0, 4), rng.randint(0, 4), 0 if planar else rng.randint(0, 4))
        if p not in seen:
            seen.add(p)
            out.append([[c, 1] for c in p])
    return out


def _grid(nu, nv, tri):
    V = [[[i, 1], [j, 1], [0, 1]] for i in range(nu) for j in range(nv)]
    F = []
    for i in range(nu - 1):
        for j in range(nv - 1):
            a, b, c, d = i * nv + j, (i + 1) * nv + j, (i + 1) * nv + j + 1, i * nv + j + 1
            F += [[a, b, c], [a, c, d]] if tri else [[a, b, c, d]]
    return V, F


def _blocks(rng, hists, extra):
    out = [h for h in hists]
    for _ in range(extra):
        k = rng.randint(1, 3)
        h = (["query_before"] if rng.random() < 0.5 else []) + ["enter"] + [rng.choice(IN_PLACE + REPLACE) for _ in range(k)] + ["exit"]
        out.append(h)
    return out


def run(ctx):
    rng = random.Random(ctx.seed)
    thorough = ctx.tier == "thorough"
    r_mc = ctx.model_check("C13_MC", "C13_MC.cfg", "editing block over shared containers: InputIntact, ResultValid")
    if thorough:
        ctx.model_check("C13_MC", "C13_MC_asbuilt.cfg", "as-built sharing must violate InputIntact", expect_violation="InputIntact")
    r_enum = ctx.model_check("MeshEnum", "MeshEnum_c13.cfg", "all oriented manifold complexes (<= 5 vertices, <= 3 faces, arity 3-5)")
    hists = [[a["op"] for a in x["h"]] for x in r_mc.records if x.get("k") == "H" and x.get("done")]
    enum = [x for x in r_enum.records if x.get("k") == "M"]
    shapes = [("E", x["nv"], [list(f) for f in x["F"]], None) for x in enum
              if meshes.is_subdividable(x["nv"], [list(f) for f in x["F"]])]
    ctx.extra["enumerated_complexes"] = len(enum)
    ctx.extra["enumerated_complexes_subdividable"] = len(shapes)
    if not thorough and len(shapes) > 250:
        shapes = rng.sample(shapes, 250)
    for nu, nv_, tri in ((2, 3, True), (3, 3, False), (3, 4, True), (2, 2, False)):
        V, F = _grid(nu, nv_, tri)
        shapes.append(("P", len(V), F, V))
    for name, nv_, F in meshes.library_surfaces(rng, big=False):
        if len(F) <= (40 if thorough else 14) and meshes.is_manifold(nv_, F) and meshes.is_subdividable(nv_, F):
            shapes.append(("L", nv_, F, None))
    blocks = _blocks(rng, hists, 300 if thorough else 60)
    cases = []
    nrep = 6 if thorough else 2
    k = 0
    for bi, h in enumerate(blocks):
        for rep in range(nrep):
            fam, nv_, F, V = shapes[(bi * nrep + rep * 7 + k) % len(shapes)]
            k += 1
            V = V if V is not None else _lattice_coords(rng, nv_)
            cases.append({"id": "blk-%d-%d" % (bi, rep), "given": {"V": V, "F": F, "family": fam},
                          "events": [{"op": o, "f": rng.randrange(64), "n": 2 if (len(F) <= 3 and sum(x in REPLACE for x in h) == 1 and rep == 0) else 1} for o in h]})
    # every enumerated complex once with a single operation (exhaustive over shapes x operations round-robin)
    allops = IN_PLACE + REPLACE
    for i, (fam, nv_, F, V) in enumerate(shapes):
        for j in range(len(allops) if thorough else 2):
            o = allops[(i + j) % len(allops)]
            cases.append({"id": "one-%d-%d" % (i, j), "given": {"V": V if V is not None else _lattice_coords(rng, nv_), "F": F, "family": fam},
                          "events": [{"op": "enter"}, {"op": o, "f": rng.randrange(64), "n": 1}, {"op": "exit"}]})
    # the stand-alone ear splitter on every enumerated triangle complex with a border (a lone triangle has three ears at once)
    for i, (fam, nv_, F, V) in enumerate(shapes):
        if all(len(f) == 3 for f in F) and (i % 3 == 0 or len(F) <= 2):
            cases.append({"id": "ears-%d" % i, "given": {"V": V if V is not None else _lattice_coords(rng, nv_), "F": F, "family": fam}, "events": [{"op": "split_ears"}]})
    obs = ctx.execute("c13", "exec_surface", cases, chunksize=8)
    ctx.judge("C13_Trace", "C13_Trace.cfg", [{k2: c[k2] for k2 in ("id", "given", "events")} for c in obs], "surface-blocks",
              "c13", "exec_surface", batch_events=600)
    c01cases = [x for c in obs for x in c["c01"]]
    ctx.judge("C01_Trace", "C01_Trace.cfg", [c for c in c01cases if c["id"].endswith("/result")], "connectivity-of-result", batch_events=1500)
    ctx.judge("C01_Trace", "C01_Trace.cfg", [c for c in c01cases if c["id"].endswith("/input")], "connectivity-of-input-object-after", batch_events=1500)
    # polylines
    pcases = []
    for i in range(120 if thorough else 30):
        n = rng.randint(2, 6)
        V = _lattice_coords(rng, n)
        pcases.append({"id": "pl-%d" % i, "given": {"V": V, "family": "polyline", "loop": int(n > 2 and i % 3 == 0)},
                       "events": [{"op": "split_edge", "i": rng.randrange(16)} for _ in range(rng.randint(1, 3))]})
    pobs = ctx.execute("c13", "exec_polyline", pcases)
    ctx.judge("C13_Trace", "C13_Trace.cfg", [{k2: c[k2] for k2 in ("id", "given", "events")} for c in pobs], "polyline-split-edge", "c13", "exec_polyline")
    # volumes
    import c03
    r_tet = ctx.model_check("TetEnum", "TetEnum.cfg", "all conforming tetrahedral complexes (<= 6 vertices, <= 3 cells)")
    tets = [x for x in r_tet.records if x.get("k") == "T" and c03.fans_connected(x["C"])]
    vcases = []
    pool = [(x["nv"], [list(c) for c in x["C"]]) for x in tets]
    for dims in ((1, 1, 1), (2, 1, 1)):
        Pk, Ck = c03.kuhn(rng, *dims)
        pool.append((len(Pk), Ck, Pk))
    for i in range(400 if thorough else 80):
        item = pool[i % len(pool)]
        nv_, C = item[0], item[1]
        P = item[2] if len(item) > 2 else c03._coords(rng, nv_, C)
        ops = [{"op": rng.choice(["split_cell_as_fan", "split_tet_from_face_center"]), "k": rng.randrange(64)} for _ in range(rng.randint(1, 2))]
        # a second face split would use face ids / connectivity of the mesh before the block: keep at most one per block
        seen_face = False
        ops2 = []
        for o in ops:
            if o["op"] == "split_tet_from_face_center":
                if seen_face or (ops2 and i % 4 != 2):
                    continue
                seen_face = True
            ops2.append(o)
        if i % 4 == 2 and len(ops2) == 1:
            ops2 = [{"op": "split_cell_as_fan", "k": rng.randrange(64)}, {"op": "split_tet_from_face_center", "k": rng.randrange(64)}]   # a cell split, then a face split, in one block
        vcases.append({"id": "vol-%d" % i, "given": {"V": [[[c, 1] for c in p] for p in P], "C": C, "family": "volume"},
                       "events": ([{"op": "query_before"}] if i % 2 else []) + ops2})
    vobs = ctx.execute("c13", "exec_volume", vcases, chunksize=8)
    ctx.judge("C13V_Trace", "C13V_Trace.cfg", [{k2: c[k2] for k2 in ("id", "given", "events")} for c in vobs], "volume-blocks", "c13", "exec_volume", batch_events=600)
    c03cases = [x for c in vobs for x in c["c03"]]
    ctx.judge("C03_Trace", "C03_Trace.cfg", [c for c in c03cases if c["id"].endswith("/result")], "volume-connectivity-of-result", batch_events=800)
    ctx.judge("C03_Trace", "C03_Trace.cfg", [c for c in c03cases if c["id"].endswith("/input")], "volume-connectivity-of-input-object-after", batch_events=800)
    ctx.exhaustive = False
    ctx.assumptions += [
        "total area is judged through the exact vector-area functional (embedding independent; equals the total area on planar consistently oriented meshes)",
        "new-vertex positions are judged when the operation is applied to an all-triangle mesh (or is a fan/triangulation); after an implicit triangulation only counts, topology, area and old vertices are judged",
        "embeddings are random distinct lattice points (and planar lattice grids); non-manifold inputs are skipped",
        "volume blocks: split_cell_as_fan (any cell, also repeatedly) and at most one split_tet_from_face_center per block (it addresses faces and connectivity of the mesh the editor was opened on)",
    ]
