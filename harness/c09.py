"""C09 - shortest paths are valid edge paths of minimum length.

Stage A  C09_MC: Dijkstra-with-lazy-deletion machine on EVERY graph with 3 / 4 nodes and weights 0..2,
         every start, every tie-break: terminates (liveness), dist = Bellman-Ford distances, settled
         vertices final, back-tracked paths are shortest.
Stage B  polylines, surfaces (MeshEnum complexes, integer-length lattices: axis grids and 3-4-5 grids)
         and volumes (Kuhn) x start x target(s) x weight mode; the library's PriorityQueue is wrapped in
         the harness process so that every real run yields its push / pop sequence.
Stage C  C09_Trace: path validity and optimality against Dist, nearest member for sets / the border, and
         the recorded queue traffic must be a behaviour of the Dijkstra machine.
"""
import itertools
import random

import numpy as np


class _Recorder:
    def __init__(self):
        self.p0 = None
        self.steps = []

    def install(self):
        from mouette.utils import PriorityQueue
        import mouette.processing.paths as paths
        rec = self

        class RecPQ(PriorityQueue):
            def push(self, x, w):
                e = [int(x), _ip(w)]
                if rec.p0 is None:
                    rec.p0 = e
                else:
                    rec.steps[-1][2].append(e)
                return super().push(x, w)

            def get(self):
                it = super().get()
                rec.steps.append([int(it.x), _ip(it.priority), []])
                return it
        self._old = paths.PriorityQueue
        paths.PriorityQueue = RecPQ
        return paths

    def remove(self, paths):
        paths.PriorityQueue = self._old


def _ip(w):
    w = float(w)
    if w == float("inf"):
        return 1000000
    return int(round(w)) if abs(w - round(w)) < 1e-9 else -7


def build(g):
    import mouette as M
    from mouette.geometry import Vec
    data = M.mesh.RawMeshData()
    for p in g["P"]:
        data.vertices.append(Vec(float(p[0]), float(p[1]), float(p[2])))
    if g["kind"] == "polyline":
        data.edges += [tuple(e) for e in g["E0"]]
        return M.mesh.PolyLine(data)
    if g["kind"] == "surface":
        data.faces += [list(f) for f in g["F"]]
        return M.mesh.SurfaceMesh(data)
    data.cells += [list(c) for c in g["C"]]
    return M.mesh.VolumeMesh(data)


def exec_case(case):
    import mouette as M
    g = dict(case["given"])
    m = build(g)
    g["n"] = len(m.vertices)
    g["E"] = [[int(a), int(b)] for a, b in m.edges]
    g.setdefault("F", [])
    g["F"] = [[int(v) for v in f] for f in m.faces] if hasattr(m, "faces") and g["kind"] == "surface" else []
    # the spec addresses edges by their position in mesh.edges: a weight table is given per edge id
    rng = random.Random(hash(case["id"]) & 0xFFFFFF)
    events = []
    for ev in case["events"]:
        e = dict(ev)
        e.update({"exc": "", "ret": [], "p0": [], "steps": []})
        mode = ev["mode"]
        if mode == "custom":
            wr = random.Random(ev["wseed"])
            e["W"] = [wr.randint(0, 3) for _ in g["E"]]
            if ev.get("as_attr"):
                w = m.edges.create_attribute("w%d" % ev["wseed"], int)
                for i, x in enumerate(e["W"]):
                    w[i] = x
            else:
                w = {i: x for i, x in enumerate(e["W"])}
        else:
            e["W"] = []
            w = mode
        rec = _Recorder()
        paths = rec.install()
        try:
            if ev["op"] == "shortest_path":
                t = ev["targets"][0] if ev.get("single") else (set(ev["targets"]) if ev.get("as_set") else list(ev["targets"]))
                r = M.processing.shortest_path(m, ev["start"], t, weights=w)
                e["ret"] = [[int(k), [int(x) for x in v]] for k, v in r.items()]
            elif ev["op"] == "to_vertex_set":
                if ev.get("export", 0):
                    # the same query with the optional polyline of the path: the answer must be the same path
                    r3 = M.processing.shortest_path_to_vertex_set(m, ev["start"], list(ev["targets"]), weights=w, export_path_mesh=True)
                    ind, p = r3[0], r3[1]
                else:
                    ind, p = M.processing.shortest_path_to_vertex_set(m, ev["start"], list(ev["targets"]), weights=w)
                e["ret"] = [int(ind), [int(x) for x in p]]
            elif ev["op"] == "to_border":
                p = M.processing.shortest_path_to_border(m, ev["start"], weights=w)
                e["ret"] = [int(p[-1]) if len(p) else -1, [int(x) for x in p]]
            else:
                raise ValueError(ev["op"])
        except Exception as ex:
            if ev["op"] not in ("shortest_path", "to_vertex_set", "to_border"):
                raise
            e["exc"] = type(ex).__name__ + ":" + str(ex)[:60]
        finally:
            rec.remove(paths)
        e["p0"] = rec.p0 or []
        n = g["n"]
        e["steps"] = [[n if v == -1 else v, p, [[n if a == -1 else a, b] for a, b in ps]] for v, p, ps in rec.steps]
        if e["p0"] and e["p0"][0] == -1:
            e["p0"][0] = n
        events.append(e)
    return {"id": case["id"], "given": g, "events": events}


def _grid_surface(nu, nv, sx, sy, tri345=False):
    P = [[i * sx, j * sy, 0] for i in range(nu) for j in range(nv)]
    F = []
    for i in range(nu - 1):
        for j in range(nv - 1):
            a, b, c, d = i * nv + j, (i + 1) * nv + j, (i + 1) * nv + j + 1, i * nv + j + 1
            F += [[a, b, c], [a, c, d]] if tri345 else [[a, b, c, d]]
    return P, F


def _events(rng, n, kinds, border=False, lengths_ok=True):
    evs = []
    for _ in range(kinds):
        mode = rng.choice(["one", "custom", "custom"] + (["length"] if lengths_ok else []))
        base = {"mode": mode, "wseed": rng.randrange(10 ** 6), "as_attr": rng.randint(0, 1), "start": rng.randrange(n)}
        r = rng.random()
        if r < 0.5:
            k = rng.randint(1, min(3, n))
            base.update(op="shortest_path", targets=rng.sample(range(n), k), single=int(k == 1 and rng.random() < 0.6), as_set=rng.randint(0, 1))
        elif r < 0.85 or not border:
            k = rng.choice([1, 1, 2, 3, min(4, n)])
            base.update(op="to_vertex_set", targets=rng.sample(range(n), min(k, n)), export=rng.choice([0, 0, 1]))
            if rng.random() < 0.2:
                base["targets"][0] = base["start"]
                base["targets"] = list(dict.fromkeys(base["targets"]))
        else:
            base.update(op="to_border", targets=[])
        evs.append(base)
    return evs


def run(ctx):
    from vf import meshes
    import c03
    rng = random.Random(ctx.seed)
    thorough = ctx.tier == "thorough"
    ctx.model_check("C09_MC", "C09_MC.cfg", "Dijkstra machine, all graphs on 3 nodes, weights 0..2: terminates, dist = Dist, paths shortest")
    ctx.model_check("C09_MC", "C09_MC_live4.cfg", "all graphs on 4 nodes, weights 0..1: termination (liveness) and correctness")
    if thorough:
        ctx.model_check("C09_MC", "C09_MC_safety4.cfg", "all graphs on 4 nodes, weights 0..2: correctness, settled vertices final")
    r_enum = ctx.model_check("MeshEnum", "MeshEnum_c13.cfg", "all oriented manifold complexes (<= 5 vertices, <= 3 faces)")
    enum = [x for x in r_enum.records if x.get("k") == "M"]
    cases = []
    nev = 10 if thorough else 6
    # polylines: every graph on <= 4 vertices as an explicit edge list (quick: sampled)
    allg = []
    for n in (2, 3, 4):
        prs = list(itertools.combinations(range(n), 2))
        for k in range(1, len(prs) + 1):
            for es in itertools.combinations(prs, k):
                allg.append((n, [list(e) for e in es]))
    if not thorough:
        allg = rng.sample(allg, 70)
    for i, (n, es) in enumerate(allg):
        P = [[rng.randint(0, 3) * 3, rng.randint(0, 3) * 4, 0] for _ in range(n)]
        cases.append({"id": "pl-%d" % i, "given": {"kind": "polyline", "P": P, "E0": es, "family": "polyline"},
                      "events": _events(rng, n, nev, lengths_ok=False)})
    # surfaces: enumerated complexes (unit / custom weights), integer-length lattices (all modes)
    for i, x in enumerate(enum if thorough else rng.sample(enum, 200)):
        P = [[rng.randint(0, 4), rng.randint(0, 4), rng.randint(0, 4)] for _ in range(x["nv"])]
        cases.append({"id": "E-%d" % i, "given": {"kind": "surface", "P": P, "F": [list(f) for f in x["F"]], "family": "E"},
                      "events": _events(rng, x["nv"], nev, border=True, lengths_ok=False)})
    for j, (nu, nv_, sx, sy, tri) in enumerate([(3, 3, 1, 1, False), (4, 3, 2, 1, False), (3, 4, 3, 4, True), (4, 4, 3, 4, True), (5, 4, 1, 2, False)]):
        P, F = _grid_surface(nu, nv_, sx, sy, tri)
        for rep in range(4 if thorough else 2):
            cases.append({"id": "lat-%d-%d" % (j, rep), "given": {"kind": "surface", "P": P, "F": F, "family": "lattice"},
                          "events": _events(rng, len(P), 2 * nev, border=True)})
    # volumes: Kuhn subdivisions (unit / custom weights)
    for j, dims in enumerate([(1, 1, 1), (2, 1, 1)] + ([(2, 2, 1)] if thorough else [])):
        P, C = c03.kuhn(rng, *dims)
        cases.append({"id": "K-%d" % j, "given": {"kind": "volume", "P": P, "C": C, "family": "K"},
                      "events": _events(rng, len(P), nev, lengths_ok=False)})
    obs = ctx.execute("c09", "exec_case", cases, chunksize=8)
    ctx.judge("C09_Trace", "C09_Trace.cfg", obs, "paths", "c09", "exec_case", batch_events=300)
    ctx.exhaustive = False
    ctx.assumptions += [
        "weights are non-negative integers (custom), 1 (unit) or integer Euclidean lengths (axis grids, 3-4-5 grids)",
        "targets not connected to the start are outside the quantifier (skipped by the specification)",
        "any optimal path / any nearest member is accepted; the path polyline export is not judged",
    ]
