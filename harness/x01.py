"""X01 - behaviour outside the twenty listed properties, specified and checked the same way (not registered in MANIFEST.json):
sequence helpers of utils.iterators, PolyLine connectivity, attribute interpolation between vertices / faces / corners.

Stage A  X01_MC: laws of the helpers for every sequence of length <= 4 over three letters and every shift; scatter-then-average
         identities of the interpolation operators for every 0/3-valued vertex attribute of a 3x3 lattice grid.
Stage B  the real helpers on random integer lists; real PolyLine objects (trees, cycles, stars, duplicated / reversed declared
         edges) with every query on every argument; every interpolation function x weight on lattice surfaces, with and
         without the cacheable attributes computed before.
Stage C  X01_Trace compares with the exact sequences / sets / rational means.
"""
import random

import numpy as np

from c07 import rat

ITER = ["cyclic_pairs", "cyclic_pairs_enumerate", "cyclic_triplets", "consecutive_pairs", "consecutive_triplets", "cyclic_permutations",
        "cyclic_perm_enumerate", "offset"]


def _tolist(x):
    if isinstance(x, (list, tuple)):
        return [_tolist(y) for y in x]
    return int(x)


def exec_case(case):
    import mouette as M
    import c09
    from mouette.utils import iterators as I
    events = []
    for ev in case["events"]:
        e = dict(ev)
        e["exc"] = ""
        try:
            if ev["op"] == "iter":
                e["ret"] = []
                f = getattr(I, ev["name"])
                r = f(list(ev["L"]), ev["k"]) if ev["name"] == "offset" else f(list(ev["L"]))
                e["ret"] = _tolist(list(r))
            elif ev["op"] == "polyline":
                e.update({"E": [], "v2v": [], "v2e": [], "eid": [], "other": [], "e2v": []})
                m = c09.build({"kind": "polyline", "P": [[i, (i * i) % 5, 0] for i in range(ev["nv"])], "F": [], "C": [], "E0": ev["E0"]})
                nv = ev["nv"]
                nn = lambda x: -1 if x is None else int(x)
                C = m.connectivity
                order = ev.get("order", 0)
                if order == 1:                       # the edge table is asked for before the neighbourhoods
                    C.edge_id(0, 1)
                e["E"] = [[int(a), int(b)] for a, b in m.edges]
                e["v2v"] = [[int(u) for u in C.vertex_to_vertices(v)] for v in range(nv)]
                e["v2e"] = [[nn(x) for x in C.vertex_to_edges(v)] for v in range(nv)]
                e["eid"] = [[nn(C.edge_id(a, b)) for b in range(nv)] for a in range(nv)]
                e["other"] = [[nn(C.other_edge_end(k, v)) for v in range(nv)] for k in range(len(m.edges))]
                e["e2v"] = [[int(x) for x in C.edge_to_vertices(k)] for k in range(len(m.edges))]
            elif ev["op"] == "interp":
                e["out"] = []
                A = M.attributes
                m = c09.build({"kind": "surface", "P": ev["mesh"]["P"], "F": ev["mesh"]["F"], "C": [], "E0": []})
                e["mesh"] = {"P": ev["mesh"]["P"], "F": [[int(v) for v in f] for f in m.faces], "E": [[int(a), int(b)] for a, b in m.edges]}
                if ev["warm"]:
                    A.face_area(m)
                    A.corner_angles(m)
                src = {"vertices_to_faces": m.vertices, "vertices_to_corners": m.vertices, "faces_to_vertices": m.faces, "faces_to_corners": m.faces,
                       "corners_to_vertices": m.face_corners, "corners_to_faces": m.face_corners}[ev["name"]]
                dst = {"vertices_to_faces": m.faces, "vertices_to_corners": m.face_corners, "faces_to_vertices": m.vertices, "faces_to_corners": m.face_corners,
                       "corners_to_vertices": m.vertices, "corners_to_faces": m.faces}[ev["name"]]
                rr = random.Random(ev["aseed"])
                inp = [rr.randint(-3, 6) for _ in range(len(src))]
                e["inp"] = inp
                a_in = src.create_attribute("x_in", float, dense=bool(ev["dense"]))
                for i, x in enumerate(inp):
                    a_in[i] = float(x)
                a_out = dst.create_attribute("x_out", float, dense=bool(ev["dense"]))
                fn = {"vertices_to_faces": A.interpolate_vertices_to_faces, "faces_to_vertices": A.interpolate_faces_to_vertices,
                      "vertices_to_corners": A.scatter_vertices_to_corners, "faces_to_corners": A.scatter_faces_to_corners,
                      "corners_to_vertices": A.average_corners_to_vertices, "corners_to_faces": A.average_corners_to_faces}[ev["name"]]
                if ev["name"] in ("faces_to_vertices", "corners_to_vertices", "corners_to_faces"):
                    out = fn(m, a_in, a_out, weight=ev["weight"])
                else:
                    out = fn(m, a_in, a_out)
                e["out"] = [rat(float(out[i])) for i in range(len(dst))]
            else:
                raise KeyError(ev["op"])
        except KeyError:
            raise
        except Exception as ex:
            e["exc"] = type(ex).__name__ + ":" + str(ex)[:80]
        events.append(e)
    return {"id": case["id"], "given": case["given"], "events": events}


def run(ctx):
    import c09
    rng = random.Random(ctx.seed)
    thorough = ctx.tier == "thorough"
    ctx.model_check("X01_MC", "X01_MC.cfg", "laws of the sequence helpers: every sequence of length <= 4 over three letters, every shift -5..5", workers=4)
    ctx.model_check("X01_MC", "X01_MC_interp.cfg", "scatter-then-average identities of the interpolation operators on a lattice grid", workers=4)
    cases = []
    evs = []
    for n in range(0, 7):
        for _ in range(4 if thorough else 2):
            L = [rng.randint(0, 9) for _ in range(n)]
            for nm in ITER:
                if nm == "offset" and n == 0:
                    continue
                evs.append({"op": "iter", "name": nm, "L": L, "k": rng.randint(-8, 8)})
    cases.append({"id": "iterators", "given": {"family": "iterators"}, "events": evs})
    shapes = []
    for nv in (2, 3, 4, 5, 6):
        for _ in range(6 if thorough else 3):
            pairs = [(a, b) for a in range(nv) for b in range(a + 1, nv)]
            E0 = [list(p) if rng.random() < 0.5 else [p[1], p[0]] for p in rng.sample(pairs, rng.randint(1, len(pairs)))]
            if rng.random() < 0.4:
                E0.append(list(reversed(E0[0])))          # the same edge declared again, the other way round
            shapes.append((nv, E0))
    cases.append({"id": "polylines", "given": {"family": "polylines"}, "events": [{"op": "polyline", "nv": nv, "E0": E0, "order": i % 2} for i, (nv, E0) in enumerate(shapes)]})
    meshes_ = []
    for nu, nv_, tri in ((3, 3, True), (3, 4, True), (3, 3, False), (4, 3, True)):
        P, F = c09._grid_surface(nu, nv_, 1, 1, tri)
        meshes_.append(("grid%dx%d%s" % (nu, nv_, "" if tri else "q"), P, F))
    cubeP = [[0, 0, 0], [2, 0, 0], [2, 2, 0], [0, 2, 0], [0, 0, 2], [2, 0, 2], [2, 2, 2], [0, 2, 2]]
    cubeT = [[0, 2, 1], [0, 3, 2], [0, 1, 5], [0, 5, 4], [1, 2, 6], [1, 6, 5], [2, 3, 7], [2, 7, 6], [3, 0, 4], [3, 4, 7], [4, 5, 6], [4, 6, 7]]
    meshes_.append(("cube", cubeP, cubeT))
    meshes_.append(("box-open", cubeP, cubeT[:10]))
    for name, P, F in meshes_:
        evs = []
        for nm, weights in (("vertices_to_faces", [""]), ("faces_to_vertices", ["uniform", "sum", "area", "angle"]), ("vertices_to_corners", [""]),
                            ("faces_to_corners", [""]), ("corners_to_vertices", ["uniform", "sum", "angle"]), ("corners_to_faces", ["uniform", "sum", "angle"])):
            for w in weights:
                for warm in (0, 1):
                    evs.append({"op": "interp", "mesh": {"P": P, "F": F}, "name": nm, "weight": w, "warm": warm, "dense": rng.randint(0, 1), "aseed": rng.randrange(10 ** 6)})
        cases.append({"id": "interp-" + name, "given": {"family": name}, "events": evs})
    obs = ctx.execute("x01", "exec_case", cases, chunksize=1)
    ctx.judge("X01_Trace", "X01_Trace.cfg", obs, "auxiliary-behaviour", "x01", "exec_case", batch_events=40)
    ctx.exhaustive = False
    ctx.assumptions += ["not one of the listed properties: an extension of the specification to neighbouring behaviour (DESIGN.md 10.8)",
                        "interpolation weights: areas rational on planar / box lattices, angles multiples of pi/4"]
