"""C06 - meshes have value semantics: copy, merge and transforms never alias.

Stage A  C06_MC: heap model (vertices are references to coordinate buffers) refining the pure
         value semantics of C06_Values; PROPERTY Refines.  One history per transition.
Stage B  histories are replayed on real meshes (TLC's producer patterns are built through the
         library's own construction path; real producers - generators, loaders, merge, subdivision,
         boundary extraction, from_arrays - are added for the random histories).  After every call
         the coordinates of ALL live meshes are recorded as exact rationals.
Stage C  C06_Trace judges every call against C06_Values.
"""
import os
import random
import tempfile
from fractions import Fraction

import numpy as np


def rat(x):
    if not np.isfinite(x):
        return [0, 0]
    fr = Fraction(float(x)).limit_denominator(4096)
    if abs(float(fr) - float(x)) > 1e-9 * (1 + abs(float(x))):
        return [0, 0]
    return [fr.numerator, fr.denominator]


def pts_of(m):
    return [[rat(c) for c in m.vertices[i]] for i in range(len(m.vertices))]


def els_of(m):
    def lst(name):
        return [[int(v) for v in x] for x in getattr(m, name)] if hasattr(m, name) else []
    return {"E": lst("edges"), "F": lst("faces"), "C": lst("cells")}


def fr(p):
    return Fraction(p[0], p[1])


def vec(p):
    from mouette.geometry import Vec
    return Vec(float(fr(p[0])), float(fr(p[1])), float(fr(p[2])))


ROT = {
    1: [[1, 0, 0], [0, 0, -1], [0, 1, 0]], 2: [[1, 0, 0], [0, 0, 1], [0, -1, 0]],
    3: [[0, 0, 1], [0, 1, 0], [-1, 0, 0]], 4: [[0, 0, -1], [0, 1, 0], [1, 0, 0]],
    5: [[0, -1, 0], [1, 0, 0], [0, 0, 1]], 6: [[0, 1, 0], [-1, 0, 0], [0, 0, 1]],
    7: [[0.6, -0.8, 0], [0.8, 0.6, 0], [0, 0, 1]], 8: [[0.6, 0.8, 0], [-0.8, 0.6, 0], [0, 0, 1]],
}


def _lattice(k, i):
    return [(3 * k + i) % 7 - 3, (2 * i + k) % 5 - 2, (i * i + k) % 6 - 1]


def _produce(gen, k, scratch):
    """Real producers.  Returns a mesh; coordinates are then overwritten IN PLACE with lattice points
    (an in-place write keeps whatever sharing the producer created)."""
    import mouette as M
    from mouette.geometry import Vec
    P = M.procedural
    if gen.startswith("pat:"):
        pat = [int(c) for c in gen[4:].split(",")]
        data = M.mesh.RawMeshData()
        bufs = {}
        for b in pat:
            if b not in bufs:
                bufs[b] = Vec(0., 0., 0.)
            data.vertices.append(bufs[b])          # one Vec object under several ids, as procedural.ring(open=True) does
        return M.mesh.PointCloud(data)
    if gen == "ring_open":
        return P.ring(4, 0.5, open=True)
    if gen == "ring":
        return P.ring(4, 0.5)
    if gen == "flat_ring":
        return P.flat_ring(4, 0.3)
    if gen == "triangle":
        return P.triangle(Vec(0, 0, 0), Vec(1, 0, 0), Vec(0, 1, 0))
    if gen == "quad":
        return P.quad(Vec(0, 0, 0), Vec(1, 0, 0), Vec(0, 1, 0))
    if gen == "grid":
        return P.unit_grid(2, 3)
    if gen == "tetra":
        return P.tetrahedron(Vec(0, 0, 0), Vec(1, 0, 0), Vec(0, 1, 0), Vec(0, 0, 1))
    if gen == "tetra_vol":
        return P.tetrahedron(Vec(0, 0, 0), Vec(1, 0, 0), Vec(0, 1, 0), Vec(0, 0, 1), volume=True)
    if gen == "octa":
        return P.octahedron()
    if gen == "cube":
        return P.axis_aligned_cube()
    if gen == "chain":
        return P.chain_of_vertices(np.array([[0., 0, 0], [1, 0, 0], [1, 1, 0], [2, 1, 1]]))
    if gen == "chain_loop":
        return P.chain_of_vertices(np.array([[0., 0, 0], [1, 0, 0], [1, 1, 0]]), loop=True)
    if gen == "from_arrays":
        V = np.array([[0., 0, 0], [1, 0, 0], [0, 1, 0], [1, 1, 0]])
        return M.mesh.from_arrays(V, F=np.array([[0, 1, 2], [1, 3, 2]]))
    if gen == "from_arrays_pc":
        return M.mesh.from_arrays(np.array([[0., 0, 0], [1, 0, 0], [0, 1, 0]]))
    if gen == "dual":
        return P.dual_mesh(P.octahedron())
    if gen in ("load_obj", "load_mesh", "load_geogram"):
        src = P.unit_grid(2, 2, triangulate=True)
        ext = {"load_obj": ".obj", "load_mesh": ".mesh", "load_geogram": ".geogram_ascii"}[gen]
        path = os.path.join(scratch, "m%d%s" % (k, ext))
        M.mesh.save(src, path)
        return M.mesh.load(path)
    if gen == "subdiv":
        src = P.unit_grid(2, 2, triangulate=True)
        with M.mesh.SurfaceSubdivision(src) as ed:
            ed.loop_subdivision(1)
        return ed.mesh
    if gen == "boundary":
        return M.processing.extract_boundary_of_surface(P.unit_grid(3, 3))[0]
    if gen == "boundary_vol":
        vol = P.tetrahedron(Vec(0, 0, 0), Vec(1, 0, 0), Vec(0, 1, 0), Vec(0, 0, 1), volume=True)
        r = M.processing.extract_boundary_of_volume(vol)
        return r[0] if isinstance(r, tuple) else r
    raise ValueError("unknown producer " + gen)


GENS = ["ring_open", "ring", "flat_ring", "triangle", "quad", "grid", "tetra", "tetra_vol", "octa", "cube", "chain",
        "chain_loop", "from_arrays", "from_arrays_pc", "dual", "load_obj", "load_mesh", "load_geogram", "subdiv",
        "boundary", "boundary_vol", "pat:1,2,1", "pat:1,1"]


def exec_case(case):
    import mouette as M
    from mouette.geometry import Vec
    from mouette.geometry import transform as T
    live = []
    events = []
    scratch = tempfile.mkdtemp(prefix="vf-c06-")
    try:
        for ev in case["events"]:
            op = ev["op"]
            e = dict((k, ev[k]) for k in ev if k not in ("proj", "exc", "pts", "el"))
            e["exc"] = ""
            if op in ("scale", "rotate") and not ev.get("useo"):
                e["o"] = [[0, 1]] * 3          # orig=None means the origin
            try:
                if op == "produce":
                    gen = ev.get("gen") or ("pat:" + ",".join(str(x) for x in ev["pat"]))
                    e["gen"] = gen
                    m = _produce(gen, len(live), scratch)
                    for i in range(len(m.vertices)):
                        m.vertices[i][:] = _lattice(len(live) + 1, i)   # in place: sharing is preserved
                    live.append(m)
                    e["pts"], e["el"] = pts_of(m), els_of(m)
                elif op == "copy":
                    m = M.mesh.copy(live[ev["m"] - 1], copy_attributes=bool(ev.get("attrs", 0)),
                                    copy_connectivity=bool(ev.get("conn", 0)))
                    live.append(m)
                    e["el"] = els_of(m)
                elif op == "merge":
                    m = M.mesh.merge([live[k - 1] for k in ev["ms"]])
                    live.append(m)
                    e["el"] = els_of(m)
                elif op == "translate":
                    T.translate(live[ev["m"] - 1], vec(ev["t"]))
                elif op == "scale":
                    T.scale(live[ev["m"] - 1], float(fr(ev["f"])), vec(ev["o"]) if ev.get("useo") else None)
                elif op == "rotate":
                    T.rotate(live[ev["m"] - 1], np.array(ROT[ev["r"]], dtype=float), vec(ev["o"]) if ev.get("useo") else None)
                elif op == "normalize":
                    if ev.get("tiny", 0):
                        T.scale(live[ev["m"] - 1], 3e-9)       # normalisation does not depend on the size the mesh had: same expected result
                    T.normalize(live[ev["m"] - 1], center_at_zero=bool(ev["centred"]))
                elif op == "edit_inplace":
                    live[ev["m"] - 1].vertices[ev["i"] - 1][:] = [float(fr(x)) for x in ev["c"]]
                elif op == "edit_rebind":
                    live[ev["m"] - 1].vertices[ev["i"] - 1] = vec(ev["c"])
                else:
                    raise ValueError("unknown op " + op)
            except Exception as ex:
                if op not in ("produce", "copy", "merge", "translate", "scale", "rotate", "normalize", "edit_inplace", "edit_rebind"):
                    raise
                e["exc"] = type(ex).__name__ + ":" + str(ex)[:80]
                if op == "produce":
                    raise
            e["proj"] = [pts_of(m) for m in live]
            events.append(e)
    finally:
        import shutil
        shutil.rmtree(scratch, ignore_errors=True)
    return {"id": case["id"], "given": case.get("given", {}), "events": events}


# ---------------------------------------------------------------- random histories (code -> spec)
def _sim_ok(pts):
    return all(abs(c) <= 60 and c.denominator <= 50 for p in pts for c in p)


def _random_case(rng, idx):
    """Random history; a Fraction simulation only SHAPES the input (keeps numbers small and exactly
    representable); it is never used as an oracle."""
    evs, sim = [], []
    ngen = rng.randint(1, 3)
    for _ in range(ngen):
        gen = rng.choice(GENS)
        evs.append({"op": "produce", "gen": gen})
        sim.append(None)     # filled lazily: sizes are unknown before execution -> keep only transform budgets
    budget = [dict(norm=1, pyth=1, half=2) for _ in sim]
    for _ in range(rng.randint(6, 16)):
        n = len(sim)
        m = rng.randint(1, n)
        r = rng.random()
        if r < 0.12 and n < 6:
            evs.append({"op": "copy", "m": m, "attrs": rng.randint(0, 1), "conn": rng.randint(0, 1)})
            sim.append(None)
            budget.append(dict(budget[m - 1]))
        elif r < 0.27 and n < 6:
            k = rng.randint(1, 3)
            ms = [rng.randint(1, n) for _ in range(k)]
            evs.append({"op": "merge", "ms": ms})
            sim.append(None)
            budget.append(dict(norm=min(budget[j - 1]["norm"] for j in ms), pyth=min(budget[j - 1]["pyth"] for j in ms),
                               half=min(budget[j - 1]["half"] for j in ms)))
        elif r < 0.47:
            t = [[rng.randint(-3, 3), 1] for _ in range(3)]
            evs.append({"op": "translate", "m": m, "t": t})
        elif r < 0.6:
            b = budget[m - 1]
            if b["norm"] == 0 and b["pyth"] == 1:       # scaling after normalize is kept to doubling
                f = [2, 1]
            elif b["half"] > 0 and rng.random() < 0.5:
                f = [1, 2]
                b["half"] -= 1
            else:
                f = [2, 1]
            useo = rng.randint(0, 1)
            evs.append({"op": "scale", "m": m, "f": f, "o": [[rng.randint(-2, 2), 1] for _ in range(3)], "useo": useo})
        elif r < 0.75:
            b = budget[m - 1]
            k = rng.randint(1, 8)
            if k >= 7:
                if b["pyth"] == 0 or b["norm"] == 0:
                    k = rng.randint(1, 6)
                else:
                    b["pyth"] -= 1
            evs.append({"op": "rotate", "m": m, "r": k, "o": [[rng.randint(-2, 2), 1] for _ in range(3)], "useo": rng.randint(0, 1)})
        elif r < 0.83:
            b = budget[m - 1]
            if b["norm"] > 0 and b["pyth"] == 1 and b["half"] == 2:
                b["norm"] = 0
                b["pyth"] = 0
                b["half"] = 0
                evs.append({"op": "normalize", "m": m, "centred": rng.randint(0, 1), "tiny": rng.choice([0, 0, 1])})
        elif r < 0.92:
            evs.append({"op": "edit_inplace", "m": m, "i": 1, "c": [[rng.randint(-4, 4), 1] for _ in range(3)]})
        else:
            evs.append({"op": "edit_rebind", "m": m, "i": 1, "c": [[rng.randint(-4, 4), 1] for _ in range(3)]})
    return {"id": "rnd-%d" % idx, "given": {"family": "random"}, "events": evs}


def run(ctx):
    rng = random.Random(ctx.seed)
    thorough = ctx.tier == "thorough"
    r = ctx.model_check("C06_MC", "C06_MC_thorough.cfg" if thorough else "C06_MC.cfg",
                        "heap of coordinate buffers refines value semantics (PROPERTY Refines)")
    if thorough:
        for cfg in ("C06_MC_asbuilt.cfg", "C06_MC_asbuilt_translate.cfg", "C06_MC_asbuilt_merge.cfg"):
            ctx.model_check("C06_MC", cfg, "as-built deviation must violate Refines", expect_violation="Refines")
    hs = [x["h"] for x in r.records if x.get("k") == "H" and x["h"]]
    cap = 60000 if thorough else 6000
    ctx.extra["histories_emitted_by_model"] = len(hs)
    if len(hs) > cap:
        hs = rng.sample(hs, cap)        # seeded sample of the transition cover
    cases = [{"id": "mc-%d" % i, "given": {"family": "mc"},
              "events": [dict(a, **({"o": [[0, 1]] * 3, "useo": 0} if a["op"] in ("scale", "rotate") else {})) for a in h]}
             for i, h in enumerate(hs)]
    rnd = [_random_case(rng, i) for i in range(1500 if thorough else 300)]
    obs = ctx.execute("c06", "exec_case", cases + rnd, chunksize=32)
    ctx.judge("C06_Trace", "C06_Trace.cfg", obs[:len(cases)], "transition-cover", "c06", "exec_case")
    ctx.judge("C06_Trace", "C06_Trace.cfg", obs[len(cases):], "random-histories-real-producers", "c06", "exec_case")
    ctx.exhaustive = False
    ctx.assumptions += [
        "bounded model: <= 3 live meshes of 2-3 vertices, depth 4 (quick) / 5 (thorough); producer sharing patterns {distinct, one buffer under two ids}",
        "coordinates are lattice points written in place after production (keeps the producer's sharing); rotations: quarter turns and one 3-4-5 turn; scales 2 and 1/2",
        "general-angle rotations are not decided; degenerate bounding boxes are outside normalize's domain",
        "edit_inplace judges only that no OTHER mesh changes (sharing inside one mesh is not part of the statement)",
    ]
