"""C10 - spanning trees and forests span, are acyclic, and respect exclusions.

Stage A  C10_MC: the BFS tree builder and Kruskal as state machines on EVERY graph with 4 nodes
         (weights 1..2, all roots, all orders of equal weights).
Stage B  edge / face / cell spanning trees, minimal spanning trees and forests on polylines (all
         graphs on <= 4 vertices), enumerated surfaces, lattices, library shapes and Kuhn volumes,
         for all roots, random exclusion sets, border avoidance, every weight mode, both traversals.
Stage C  C10_Trace rebuilds the admissible graph from the element lists and judges the tables.
"""
import itertools
import random

import c09


def _tree_event(T, ev):
    e = dict(ev)
    T.compute()
    n = len(T.parent)
    e["parent"] = [-1 if p is None else int(p) for p in T.parent]
    e["children"] = [[int(x) for x in ch] for ch in T.children]
    e["edges"] = [[int(a), int(b)] for a, b in T.edges]
    if ev.get("abandon", 0):
        # history: a traversal of this very tree object is abandoned half way (and one in the other order too) before the ones that are judged
        for how in ("DFS", "BFS"):
            for k, _ in enumerate(T.traverse(how)):
                if k >= 1:
                    break
    e["bfs"] = [[int(a), -1 if b is None else int(b)] for a, b in T.traverse("BFS")]
    e["dfs"] = [[int(a), -1 if b is None else int(b)] for a, b in T.traverse("DFS")]
    return e


def exec_case(case):
    import mouette as M
    from mouette.processing import trees as TR
    g = dict(case["given"])
    m = c09.build(g)
    g["n"] = len(m.vertices)
    g["E"] = [[int(a), int(b)] for a, b in m.edges]
    g["F"] = [[int(v) for v in f] for f in m.faces] if hasattr(m, "faces") else []
    g["C"] = [[int(v) for v in c] for c in m.cells] if hasattr(m, "cells") else []
    events = []
    for ev in case["events"]:
        e = dict(ev)
        e.update({"exc": "", "parent": [], "children": [], "edges": [], "bfs": [], "dfs": [], "roots": [], "trees": [], "edges2": [], "tedges": [], "W": []})
        try:
            ne, nf, nc = len(g["E"]), len(g["F"]), len(g["C"])
            size = {"vertices": g["n"], "faces": nf, "cells": nc}[ev["over"]]
            e["root"] = ev["root"] % max(1, size)
            rnd = random.Random(ev["xseed"])
            if ev["over"] == "vertices":
                pool = ne
            elif ev["over"] == "faces":
                pool = ne
            else:
                pool = nf
            k = min(ev["nex"], pool)
            e["excluded"] = sorted(rnd.sample(range(pool), k)) if k else []
            if ev["op"] == "tree":
                if ev["over"] == "vertices":
                    T = TR.EdgeSpanningTree(m, e["root"], avoid_boundary=bool(ev["avoid_boundary"]), avoid_edges=set(e["excluded"]) if e["excluded"] else None)
                elif ev["over"] == "faces":
                    T = TR.FaceSpanningTree(m, e["root"], forbidden_edges=set(e["excluded"]) if e["excluded"] else None)
                else:
                    T = TR.CellSpanningTree(m, e["root"], forbidden_faces=set(e["excluded"]) if e["excluded"] else None)
                e.update(_tree_event(T, e))
            elif ev["op"] == "mst":
                e["excluded"] = []
                if ev["mode"] == "custom":
                    wr = random.Random(ev["xseed"])
                    e["W"] = [wr.randint(1, 3) for _ in range(ne)]
                    if ev.get("as_attr"):
                        w = m.edges.create_attribute("w%d" % ev["xseed"], int)
                        for i, x in enumerate(e["W"]):
                            w[i] = x
                    else:
                        w = {i: x for i, x in enumerate(e["W"])}
                else:
                    w = ev["mode"]
                T = TR.EdgeMinimalSpanningTree(m, e["root"], avoid_boundary=bool(ev["avoid_boundary"]), weights=w)
                e.update(_tree_event(T, e))
            elif ev["op"] == "forest":
                e["avoid_boundary"] = 0
                if ev["over"] == "vertices":
                    e["excluded"] = []
                    Fo = TR.EdgeSpanningForest(m)
                elif ev["over"] == "faces":
                    Fo = TR.FaceSpanningForest(m, forbidden_edges=set(e["excluded"]) if e["excluded"] else None)
                else:
                    e["excluded"] = []
                    Fo = TR.CellSpanningForest(m)
                Fo.compute()
                e["roots"] = [int(r) for r in Fo.roots]
                e["trees"] = [[int(a) for a, _ in t.traverse()] for t in Fo.trees]
                e["edges"] = [[int(a), int(b)] for a, b in Fo.edges]
                # the list a forest hands out is the caller's: reading it again, or the trees' own lists afterwards, gives the same answers
                e["edges2"] = [[int(a), int(b)] for a, b in Fo.edges]
                e["tedges"] = [[[int(a), int(b)] for a, b in t.edges] for t in Fo.trees]
            else:
                raise ValueError(ev["op"])
        except Exception as ex:
            if ev["op"] not in ("tree", "mst", "forest"):
                raise
            e["exc"] = type(ex).__name__ + ":" + str(ex)[:80]
        events.append(e)
    return {"id": case["id"], "given": g, "events": events}


def _events(rng, kind, k, lengths_ok):
    overs = {"polyline": ["vertices"], "surface": ["vertices", "faces"], "volume": ["vertices", "cells"]}[kind]
    evs = []
    for _ in range(k):
        over = rng.choice(overs)
        r = rng.random()
        base = {"over": over, "root": rng.randrange(1000), "avoid_boundary": 0, "nex": rng.choice([0, 0, 1, 2, 3]), "xseed": rng.randrange(10 ** 6),
                "mode": "one", "as_attr": rng.randint(0, 1), "abandon": rng.choice([0, 0, 1])}
        if r < 0.55:
            base["op"] = "tree"
            if over == "vertices" and kind != "polyline":
                base["avoid_boundary"] = rng.choice([0, 0, 1])
        elif r < 0.8 and over == "vertices":
            base.update(op="mst", nex=0, mode=rng.choice(["one", "custom", "custom"] + (["length"] if lengths_ok else [])),
                        avoid_boundary=rng.choice([0, 0, 1]) if kind == "surface" else 0)
        else:
            base["op"] = "forest"
        evs.append(base)
    return evs


def run(ctx):
    from vf import meshes
    import c03
    rng = random.Random(ctx.seed)
    thorough = ctx.tier == "thorough"
    ctx.model_check("C10_MC", "C10_MC.cfg", "BFS builder and Kruskal on all graphs with 4 nodes: reach, hop distance, minimum forest")
    r_enum = ctx.model_check("MeshEnum", "MeshEnum.cfg", "all oriented manifold complexes (<= 5 vertices, <= 4 faces)")
    enum = [x for x in r_enum.records if x.get("k") == "M"]
    nev = 10 if thorough else 6
    cases = []
    allg = []
    for n in (2, 3, 4, 5):
        prs = list(itertools.combinations(range(n), 2))
        for k in range(1, len(prs) + 1):
            for es in itertools.combinations(prs, k):
                allg.append((n, [list(e) for e in es]))
    allg = allg if thorough and len(allg) < 1500 else rng.sample(allg, 400 if thorough else 80)
    for i, (n, es) in enumerate(allg):
        P = [[rng.randint(0, 3) * 3, rng.randint(0, 3) * 4, 0] for _ in range(n)]
        cases.append({"id": "pl-%d" % i, "given": {"kind": "polyline", "P": P, "E0": es, "family": "polyline"}, "events": _events(rng, "polyline", nev, False)})
    for i, x in enumerate(rng.sample(enum, 600 if thorough else 150)):
        P = [[rng.randint(0, 4), rng.randint(0, 4), rng.randint(0, 4)] for _ in range(x["nv"])]
        cases.append({"id": "E-%d" % i, "given": {"kind": "surface", "P": P, "F": [list(f) for f in x["F"]], "family": "E"}, "events": _events(rng, "surface", nev, False)})
    for j, (nu, nv_, sx, sy, tri) in enumerate([(3, 3, 1, 1, False), (4, 3, 2, 1, False), (3, 4, 3, 4, True), (4, 4, 3, 4, True)]):
        P, F = c09._grid_surface(nu, nv_, sx, sy, tri)
        cases.append({"id": "lat-%d" % j, "given": {"kind": "surface", "P": P, "F": F, "family": "lattice"}, "events": _events(rng, "surface", 2 * nev, True)})
    for name, nv_, F in meshes.library_surfaces(rng, big=thorough):
        if meshes.is_manifold(nv_, F) and len(F) <= 60:
            P = [[rng.randint(0, 9), rng.randint(0, 9), rng.randint(0, 9)] for _ in range(nv_)]
            cases.append({"id": "L-%s" % name, "given": {"kind": "surface", "P": P, "F": F, "family": "L"}, "events": _events(rng, "surface", nev, False)})
    for j, (dims, keep) in enumerate([((1, 1, 1), 1.0), ((2, 1, 1), 1.0), ((2, 2, 1), 0.6)] + ([((2, 2, 2), 0.5)] if thorough else [])):
        for _try in range(30):          # a random sub-selection of cubes can leave two cells that touch along an edge only: not a manifold volume (precondition of C03)
            P, C = c03.kuhn(rng, *dims, keep=keep)
            if C and c03.fans_connected(C):
                break
        else:
            continue
        cases.append({"id": "K-%d" % j, "given": {"kind": "volume", "P": P, "C": C, "family": "K"}, "events": _events(rng, "volume", 2 * nev, False)})
    obs = ctx.execute("c10", "exec_case", cases, chunksize=8)
    ctx.judge("C10_Trace", "C10_Trace.cfg", obs, "trees-and-forests", "c10", "exec_case", batch_events=300)
    ctx.exhaustive = False
    ctx.assumptions += [
        "any minimum-weight forest / any breadth-first tree is accepted (tables are judged relationally)",
        "weights: unit, custom positive integers, integer Euclidean lengths on lattices",
        "exclusion sets are random subsets of edge / face ids (up to 3)",
    ]
